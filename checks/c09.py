"""C09 - TCR Levenshtein metrics are the stated weighted sum over chains and CDR loops."""
import random

from vmon import canon
from vmon import gens as G
from vmon.gens import THOROUGH_SCALE as TS
from vmon import oracles as O

PID = "C09"
RULE = ("metric cases: one of the six TcrLevenshtein classes x random positive integer weights (only those its constructor accepts) "
        "x anchors table x comparisons table (different sizes, every index flavour, extra columns, single-chain tables for the "
        "single-chain metrics); calc_cdist_matrix[i,j] compared with sum_chains sum_loops chain_w*loop_w*wlev(loop_i -> loop_j), "
        "CDR1/CDR2 looked up in the tidytcells gene reference ('' when the allele has none); additivity (paired = aw*alpha + bw*beta), "
        "row-permutation equivariance, calc_pdist_vector = condensed upper triangle of the self cdist, deep fingerprint of both caller "
        "tables unchanged. reject cases: list / ndarray / Series / None / table without TCR columns must raise ValueError. "
        "distinct_nontrivial = distinct (class, weights, tables) whose oracle matrix has at least two different values.")
ASSUMPTIONS = ["V alleles are drawn from those for which tidytcells has sequence data (incl. TRAV40*01 and TRAV2*02 which lack a CDR2)",
               "no missing cells in the columns within a metric's scope",
               "tidytcells' get_aa_sequence is the reference the property itself names for CDR1/CDR2"]
EXHAUSTIVE = {"quick": ["6 classes x 5 index flavours on a fixed witness table", "6 classes x 5 non-table inputs"],
              "thorough": ["6 classes x 5 index flavours x 3 weight settings on a fixed witness table", "6 classes x 5 non-table inputs x 3 argument positions"]}
REQUIRE = {"self_big_cases": 1, "same_table_object_edited_then_reused": 41, "cdist_cells_checked": 1205, "asymmetric_indel_cases": 20, "chain_weight_cases": 8,
           "loop_weight_cases": 15, "anchors_ne_comparisons_size": 30, "nondefault_index_cases": 30, "additivity_checked": 8,
           "permutation_checked": 20, "pdist_checked": 30, "tables_fingerprinted": 100, "reject_cases": 27,
           "allele_without_cdr2_cases": 5, "single_chain_table_cases": 8}
SHARDS = {"quick": 6, "thorough": 16}
CLASSES = ["AlphaCdr3Levenshtein", "BetaCdr3Levenshtein", "Cdr3Levenshtein", "AlphaCdrLevenshtein", "BetaCdrLevenshtein", "CdrLevenshtein"]
SCOPE = {"AlphaCdr3Levenshtein": ("A", False), "BetaCdr3Levenshtein": ("B", False), "Cdr3Levenshtein": ("AB", False),
         "AlphaCdrLevenshtein": ("A", True), "BetaCdrLevenshtein": ("B", True), "CdrLevenshtein": ("AB", True)}
ACCEPTS = {"AlphaCdr3Levenshtein": ["insertion_weight", "deletion_weight", "substitution_weight"],
           "BetaCdr3Levenshtein": ["insertion_weight", "deletion_weight", "substitution_weight"],
           "Cdr3Levenshtein": ["insertion_weight", "deletion_weight", "substitution_weight", "alpha_weight", "beta_weight"],
           "AlphaCdrLevenshtein": ["insertion_weight", "deletion_weight", "substitution_weight", "cdr1_weight", "cdr2_weight", "cdr3_weight"],
           "BetaCdrLevenshtein": ["insertion_weight", "deletion_weight", "substitution_weight", "cdr1_weight", "cdr2_weight", "cdr3_weight"],
           "CdrLevenshtein": ["insertion_weight", "deletion_weight", "substitution_weight", "alpha_weight", "beta_weight",
                              "cdr1_weight", "cdr2_weight", "cdr3_weight"]}

_REF = {}


def _loops(v):
    """(CDR1, CDR2) of a V allele from the gene reference; '' when absent."""
    if v not in _REF:
        import tidytcells as tt
        d = tt.tr.get_aa_sequence(v)
        _REF[v] = (d.get("CDR1-IMGT", ""), d.get("CDR2-IMGT", ""))
    return _REF[v]


def self_test():
    O.self_test()
    assert _loops("TRAV1-1*01") == ("TSGFYG", "NALDGL")
    assert _loops("TRAV40*01")[1] == ""


def oracle(cls, w, ri, rj):
    """rows are [TRAV, CDR3A, TRBV, CDR3B]"""
    chains, allcdr = SCOPE[cls]
    ins, dele, sub = w.get("insertion_weight", 1), w.get("deletion_weight", 1), w.get("substitution_weight", 1)
    total = 0
    for ch in chains:
        cw = w.get("alpha_weight" if ch == "A" else "beta_weight", 1)
        v_i, c3_i = (ri[0], ri[1]) if ch == "A" else (ri[2], ri[3])
        v_j, c3_j = (rj[0], rj[1]) if ch == "A" else (rj[2], rj[3])
        s = w.get("cdr3_weight", 1) * O.wlev(c3_i, c3_j, ins, dele, sub)
        if allcdr:
            l_i, l_j = _loops(v_i), _loops(v_j)
            s += w.get("cdr1_weight", 1) * O.wlev(l_i[0], l_j[0], ins, dele, sub)
            s += w.get("cdr2_weight", 1) * O.wlev(l_i[1], l_j[1], ins, dele, sub)
        total += cw * s
    return total


def frame(rows, cols="AB", index=None, extra=False, reverse_columns=False):
    import pandas as pd
    data = {}
    if "A" in cols:
        data["TRAV"] = [r[0] for r in rows]
        data["CDR3A"] = [r[1] for r in rows]
    if "B" in cols:
        data["TRBV"] = [r[2] for r in rows]
        data["CDR3B"] = [r[3] for r in rows]
    if extra is True:
        data["Epitope"] = ["GILGFVFTL"] * len(rows)
        data["clone_count"] = list(range(len(rows)))
        data[" note "] = ["n"] * len(rows)              # a caller's own column whose label carries blanks: labels are part of the table
    if extra == "stale":
        # the table already carries CDR1/CDR2 columns (stale annotation): the loops of the row's V allele count, not these
        for c, junk in (("CDR1A", "XXXXXX"), ("CDR2A", "YY"), ("CDR1B", "ZZZZZZZZ"), ("CDR2B", "")):
            data[c] = [junk + "Q" * (i % 3) for i in range(len(rows))]
    df = pd.DataFrame(data)
    if extra == "category":
        df = df.astype("category")               # columns stored with pandas' category dtype
    if reverse_columns:
        df = df[list(reversed(list(df.columns)))]
    n = len(rows)
    if index == "shifted":
        df.index = range(5, 5 + n)
    elif index == "permuted":
        idx = list(range(n))
        random.Random(n * 31 + 1).shuffle(idx)
        df.index = idx
    elif index == "string":
        df.index = [f"tcr{i}" for i in range(n)]
    elif index == "duplicated":
        df.index = [i // 2 for i in range(n)]
    return df


def _make(cls, w):
    from pyrepseq.metric import tcr_metric
    return getattr(tcr_metric, cls)(**w)


def _matrix(cls, w, A, B):
    import numpy as np
    return np.array([[oracle(cls, w, a, b) for b in B] for a in A], dtype=float).reshape(len(A), len(B))


def k_metric(ctx, cls, w, anchors, comps, index=None, extra=False, cols="AB"):
    import numpy as np
    ctx.count(f"class:{cls}")
    if w.get("insertion_weight", 1) != w.get("deletion_weight", 1):
        ctx.count("asymmetric_indel_cases")
    if w.get("alpha_weight", 1) != w.get("beta_weight", 1):
        ctx.count("chain_weight_cases")
    if len({w.get("cdr1_weight", 1), w.get("cdr2_weight", 1), w.get("cdr3_weight", 1)}) > 1:
        ctx.count("loop_weight_cases")
    if len(anchors) != len(comps):
        ctx.count("anchors_ne_comparisons_size")
    if index:
        ctx.count("nondefault_index_cases")
    if cols != "AB":
        ctx.count("single_chain_table_cases")
    if any(r[0] in ("TRAV40*01", "TRAV2*02") for r in anchors + comps) and SCOPE[cls][1] and "A" in SCOPE[cls][0]:
        ctx.count("allele_without_cdr2_cases")
    want = _matrix(cls, w, anchors, comps)
    if len(set(want.ravel().tolist())) >= 2:
        ctx.nontriv([cls, w, anchors, comps, cols])
    ctx.sample(f"metric:{cls}", {"weights": w, "anchors": anchors[:3], "comps": comps[:3], "index": index, "cols": cols})
    try:
        metric = _make(cls, w)
    except Exception as e:
        ctx.violation(f"{cls}:constructor:raised", f"constructor rejected its documented weights: {e}", w, None)
        return
    rev = (len(anchors) + len(comps)) % 2 == 1          # column order of the tables must not matter
    dfa, dfb = frame(anchors, cols, index, extra, reverse_columns=rev), frame(comps, cols, index, extra, reverse_columns=not rev and len(comps) % 3 == 0)
    fa, fb = canon.fingerprint(dfa), canon.fingerprint(dfb)
    out = ctx.call(metric.calc_cdist_matrix, dfa, dfb)
    tcls = "paired-table" if cols == "AB" else "single-chain-table"
    if not out.ok:
        ctx.violation(f"{cls}:cdist:{tcls}:raised:{type(out.exc).__name__}", "calc_cdist_matrix raised on a standard-format table",
                      out.describe(), want)
    else:
        M = np.asarray(out.value)
        ctx.count("cdist_cells_checked", int(want.size))
        if M.shape != want.shape:
            ctx.violation(f"{cls}:cdist:shape", "wrong matrix shape", list(M.shape), list(want.shape))
        elif not np.array_equal(M.astype(float), want):
            i, j = np.argwhere(M.astype(float) != want)[0].tolist()
            ctx.violation(f"{cls}:cdist:wrong-distance", f"[{i},{j}] got {float(M[i, j])}, weighted sum over chains/loops is {want[i, j]}",
                          M, want, {"weights": w, "anchor": anchors[i], "comparison": comps[j]})
    ctx.count("tables_fingerprinted", 2)
    if canon.fingerprint(dfa) != fa or canon.fingerprint(dfb) != fb:
        ctx.violation(f"{cls}:cdist:caller-table-modified", "a caller's table was modified by calc_cdist_matrix",
                      {"anchors_columns": list(dfa.columns), "comparisons_columns": list(dfb.columns)}, "unchanged tables")
    # pdist = condensed upper triangle of the self cdist
    if len(anchors) >= 2:
        pv = ctx.call(metric.calc_pdist_vector, dfa)
        ctx.count("pdist_checked")
        m = len(anchors)
        wantv = [oracle(cls, w, anchors[i], anchors[j]) for i in range(m) for j in range(i + 1, m)]
        if not pv.ok:
            ctx.violation(f"{cls}:pdist:{tcls}:raised", "calc_pdist_vector raised", pv.describe(), wantv)
        elif np.asarray(pv.value).astype(float).tolist() != [float(x) for x in wantv]:
            ctx.violation(f"{cls}:pdist:wrong", "calc_pdist_vector is not the condensed upper triangle of the self cdist", pv.value, wantv)
        if canon.fingerprint(dfa) != fa:
            ctx.violation(f"{cls}:pdist:caller-table-modified", "caller's table modified by calc_pdist_vector", list(dfa.columns), None)
    # row-order equivariance
    if out.ok and len(anchors) >= 2:
        perm = list(range(len(anchors)))
        random.Random(len(anchors) + 17).shuffle(perm)
        dfp = dfa.iloc[perm]
        outp = ctx.call(metric.calc_cdist_matrix, dfp, dfb)
        ctx.count("permutation_checked")
        if not outp.ok or not np.array_equal(np.asarray(outp.value).astype(float), want[perm, :]):
            ctx.violation(f"{cls}:cdist:row-order-dependent", "permuting the anchor rows does not permute the matrix rows accordingly",
                          outp.describe(), want[perm, :])
    # the caller edits its own anchor table in place (row 0 takes the content of the first comparison row) and asks the same
    # metric object again: the value depends on the rows' present contents only
    if out.ok and list(anchors[0]) != list(comps[0]) and extra != "category":
        names = {"TRAV": 0, "CDR3A": 1, "TRBV": 2, "CDR3B": 3}
        for col, k in names.items():
            if col in dfa.columns:
                dfa.iat[0, dfa.columns.get_loc(col)] = comps[0][k]
        edited = [list(comps[0])] + [list(r) for r in anchors[1:]]
        want_e = _matrix(cls, w, edited, comps)
        oute = ctx.call(metric.calc_cdist_matrix, dfa, dfb)
        ctx.count("same_table_object_edited_then_reused")
        if not oute.ok or not np.array_equal(np.asarray(oute.value).astype(float), want_e):
            ctx.violation(f"{cls}:cdist:edited-table", "after the caller edited a row of its table in place, the same metric object does not return the distances of the present contents",
                          oute.describe(), want_e, {"weights": w})


def k_selfbig(ctx, cls, w, distinct, n, np_seed, same_object=True):
    """A few hundred rows drawn from a few distinct receptors; the very same table object as anchors and comparisons."""
    import numpy as np
    rng = random.Random(np_seed)
    pick = [rng.randrange(len(distinct)) for _ in range(n)]
    rows = [distinct[k] for k in pick]
    D = _matrix(cls, w, distinct, distinct)
    want = D[np.ix_(pick, pick)]
    ctx.count("self_big_cases")
    ctx.count(f"class:{cls}")
    ctx.nontriv(["selfbig", cls, w, n, np_seed])
    ctx.sample("selfbig", {"cls": cls, "weights": w, "n": n, "distinct": len(distinct)})
    metric = _make(cls, w)
    df = frame(rows)
    other = df if same_object else frame(rows)
    out = ctx.call(metric.calc_cdist_matrix, df, other)
    if not out.ok:
        ctx.violation(f"{cls}:cdist:selfbig:raised", "calc_cdist_matrix raised", out.describe(), None)
        return
    M = np.asarray(out.value).astype(float)
    ctx.count("cdist_cells_checked", int(want.size))
    if M.shape != want.shape or not np.array_equal(M, want):
        bad = np.argwhere(M != want)[0].tolist() if M.shape == want.shape else None
        ctx.violation(f"{cls}:cdist:selfbig:wrong-distance", f"{n}-row table against itself: cell {bad} is not the weighted sum (anchor i -> comparison j)",
                      None if bad is None else float(M[bad[0], bad[1]]), None if bad is None else float(want[bad[0], bad[1]]), {"weights": w})
    pv = ctx.call(metric.calc_pdist_vector, df)
    iu = np.triu_indices(n, 1)
    if not pv.ok or not np.array_equal(np.asarray(pv.value).astype(float), want[iu]):
        ctx.violation(f"{cls}:pdist:selfbig:wrong", "calc_pdist_vector is not the condensed upper triangle of the self cdist", None, None)


def k_additive(ctx, w, anchors, comps):
    import numpy as np
    base = {k: w[k] for k in ("insertion_weight", "deletion_weight", "substitution_weight") if k in w}
    loops = {k: w[k] for k in ("cdr1_weight", "cdr2_weight", "cdr3_weight") if k in w}
    aw, bw = w.get("alpha_weight", 1), w.get("beta_weight", 1)
    dfa, dfb = frame(anchors), frame(comps)
    ctx.count("additivity_checked")
    ctx.nontriv(["add", w, anchors, comps])
    ctx.sample("additive", {"weights": w, "n": [len(anchors), len(comps)]})
    for paired, alpha, beta, extra in (("Cdr3Levenshtein", "AlphaCdr3Levenshtein", "BetaCdr3Levenshtein", {}),
                                        ("CdrLevenshtein", "AlphaCdrLevenshtein", "BetaCdrLevenshtein", loops)):
        P = ctx.call(_make(paired, dict(base, alpha_weight=aw, beta_weight=bw, **extra)).calc_cdist_matrix, dfa, dfb)
        A = ctx.call(_make(alpha, dict(base, **extra)).calc_cdist_matrix, dfa, dfb)
        B = ctx.call(_make(beta, dict(base, **extra)).calc_cdist_matrix, dfa, dfb)
        if not (P.ok and A.ok and B.ok):
            ctx.violation(f"{paired}:additivity:raised", "a metric raised", [P.describe(), A.describe(), B.describe()], None)
            continue
        lhs = np.asarray(P.value).astype(float)
        rhs = aw * np.asarray(A.value).astype(float) + bw * np.asarray(B.value).astype(float)
        if not np.array_equal(lhs, rhs):
            ctx.violation(f"{paired}:additivity", f"{paired} != alpha_weight*{alpha} + beta_weight*{beta}", lhs, rhs, {"weights": w})


def k_reject(ctx, cls, bad, where):
    import numpy as np
    import pandas as pd
    metric = _make(cls, {})
    good = frame([["TRAV1-1*01", "CAVF", "TRBV9*01", "CASSF"], ["TRAV2*01", "CAAF", "TRBV9*01", "CASSW"]])
    obj = {"list": ["CASSF", "CASSW"], "ndarray": np.array(["CASSF", "CASSW"]), "series": pd.Series(["CASSF", "CASSW"]),
           "none": None, "frame_without_tcr_columns": pd.DataFrame({"x": [1, 2], "cdr3": ["CASSF", "CASSW"]}),
           "empty_frame": pd.DataFrame(), "empty_frame_with_other_column": pd.DataFrame(columns=["Epitope"]),
           "rows_without_columns": pd.DataFrame(index=[0, 1]), "string": "CASSF", "dict": {"CDR3B": ["CASSF"]}}[bad]
    ctx.count("reject_cases")
    ctx.nontriv(["R", cls, bad, where])
    ctx.sample("reject", {"cls": cls, "bad": bad, "where": where})
    if where == "anchors":
        out = ctx.call(metric.calc_cdist_matrix, obj, good)
    elif where == "comparisons":
        out = ctx.call(metric.calc_cdist_matrix, good, obj)
    else:
        out = ctx.call(metric.calc_pdist_vector, obj)
    if out.ok:
        ctx.violation(f"{cls}:non-table-accepted:{where}", f"a {bad} was accepted instead of raising ValueError", out.value, "ValueError")
    elif not isinstance(out.exc, ValueError):
        ctx.violation(f"{cls}:non-table:{where}:wrong-exception", f"a {bad} raised {type(out.exc).__name__}, not ValueError", out.describe(), "ValueError")


KINDS = {"selfbig": k_selfbig, "metric": k_metric, "additive": k_additive, "reject": k_reject}

_AL = {}


def alleles():
    if not _AL:
        import tidytcells as tt
        q = sorted(tt.tr.query(precision="allele"))
        for pre in ("TRAV", "TRBV"):
            ok = []
            for v in q:
                if v.startswith(pre):
                    try:
                        tt.tr.get_aa_sequence(v)
                        ok.append(v)
                    except Exception:
                        pass
            _AL[pre] = ok
    return _AL["TRAV"], _AL["TRBV"]


def rand_rows(rng, n, va, vb):
    a = G.repertoire(rng, n, families=max(1, n // 3), lo=2, hi=9)
    b = G.repertoire(rng, n, families=max(1, n // 3), lo=2, hi=9)
    pa = rng.sample(va, 4) + ["TRAV40*01", "TRAV2*02"]
    pb = rng.sample(vb, 5)
    return [[rng.choice(pa), a[i], rng.choice(pb), b[i]] for i in range(n)]


def rand_weights(rng, cls, full=True):
    w = {}
    for k in ACCEPTS[cls]:
        if full or rng.random() < 0.6:
            w[k] = rng.randint(1, 5)
    return w


WIT = [["TRAV1-1*01", "CAVRDF", "TRBV9*01", "CASSF"], ["TRAV40*01", "CAVF", "TRBV9*01", "CASSLGF"],
       ["TRAV2*02", "CAAVRF", "TRBV19*01", "CASF"], ["TRAV1-1*01", "CAVRDF", "TRBV9*01", "CASSF"],
       ["TRAV12-2*01", "", "TRBV6-5*01", "CAWSVGF"]]


def generate(tier, seed):
    rng = random.Random(9000 + seed)
    thorough = tier == "thorough"
    va, vb = alleles()
    for cls in CLASSES:
        wsets = [{}, rand_weights(rng, cls)] + ([rand_weights(rng, cls)] if thorough else [])
        for w in wsets:
            for index in (None, "shifted", "permuted", "string", "duplicated"):
                yield "metric", {"cls": cls, "w": w, "anchors": WIT, "comps": WIT[:3], "index": index, "extra": index == "string"}, True
        chains = SCOPE[cls][0]
        if chains != "AB":
            yield "metric", {"cls": cls, "w": {}, "anchors": WIT, "comps": WIT[1:], "cols": chains}, True
            yield "metric", {"cls": cls, "w": rand_weights(rng, cls), "anchors": WIT[:4], "comps": WIT, "cols": chains, "index": "shifted"}, True
        for bad in ("list", "ndarray", "series", "none", "frame_without_tcr_columns", "empty_frame", "empty_frame_with_other_column",
                    "rows_without_columns", "string", "dict"):
            for where in (("anchors", "comparisons", "pdist") if thorough else ("anchors", "pdist") if bad != "list" else ("comparisons",)):
                yield "reject", {"cls": cls, "bad": bad, "where": where}, True
    for cls in CLASSES:
        for trip in ((2, 1, 1), (1, 2, 1), (1, 1, 2)):         # neighbours of the unit-weight shortcut
            yield "metric", {"cls": cls, "w": {"insertion_weight": trip[0], "deletion_weight": trip[1], "substitution_weight": trip[2]},
                             "anchors": WIT[:4], "comps": WIT[1:]}, True
    for cls in CLASSES:
        big = {k: v for k, v in {"insertion_weight": 3, "deletion_weight": 5, "substitution_weight": 7, "alpha_weight": 100, "beta_weight": 90,
                                 "cdr1_weight": 60, "cdr2_weight": 80, "cdr3_weight": 100}.items() if k in ACCEPTS[cls]}
        yield "metric", {"cls": cls, "w": big, "anchors": WIT, "comps": WIT[:3]}, True          # entries beyond 65535
    # stale CDR1/CDR2 columns already in the table; columns of category dtype with a dozen and more categories
    for j, cls in enumerate(CLASSES):
        rows14 = rand_rows(rng, 28, va, vb)
        yield "metric", {"cls": cls, "w": rand_weights(rng, cls), "anchors": WIT, "comps": WIT[:4], "extra": "stale"}, True
        yield "metric", {"cls": cls, "w": rand_weights(rng, cls), "anchors": rows14[:14], "comps": rows14[14:], "extra": "category"}, True
    # a table of a few hundred rows against itself (same object), asymmetric insertion / deletion weights
    for j, cls in enumerate(CLASSES if thorough else [CLASSES[seed % 6], CLASSES[(seed + 3) % 6]]):
        w = {k: v for k, v in {"insertion_weight": 1 + j % 2, "deletion_weight": 3, "substitution_weight": 2, "alpha_weight": 2}.items() if k in ACCEPTS[cls]}
        yield "selfbig", {"cls": cls, "w": w, "distinct": rand_rows(rng, 9, va, vb), "n": 300 if not thorough else 600, "np_seed": 9900 + seed + j, "same_object": j % 2 == 0}, True
    n_rand = 3000 * TS if thorough else 150
    for i in range(n_rand):
        cls = CLASSES[i % 6]
        na, nb = rng.randint(1, 9), rng.randint(1, 9)
        rows = rand_rows(rng, na + nb, va, vb)
        cols = "AB"
        if SCOPE[cls][0] != "AB" and i % 4 == 0:
            cols = SCOPE[cls][0]
        yield "metric", {"cls": cls, "w": rand_weights(rng, cls, full=i % 3 != 0), "anchors": rows[:na], "comps": rows[na:],
                         "index": [None, "shifted", "permuted", "string", "duplicated"][i % 5], "extra": i % 2 == 0, "cols": cols}, i < 60
    for i in range(400 * TS if thorough else 24):
        rows = rand_rows(rng, rng.randint(3, 12), va, vb)
        cut = rng.randint(1, len(rows) - 1)
        yield "additive", {"w": rand_weights(rng, "CdrLevenshtein"), "anchors": rows[:cut], "comps": rows[cut:]}, i < 16
