"""C18 - input cleaning is total, cell-local and never alters the caller's table."""
import collections
import itertools
import random

from vmon import canon
from vmon import gens as G
from vmon.gens import THOROUGH_SCALE as TS

TS = TS * 6          # this check is cheap per case: the thorough tier explores six times the common random workload
from vmon import oracles as O

PID = "C18"
RULE = ("predicate cases: isvalidaa / isvalidcdr3 on a corpus of ~230 Python objects (strings of every shape, None, NaN, pd.NA, ints, floats, "
        "bools, bytes, empty and non-empty containers, NumPy scalars) plus random strings: must return a bool without raising, the exact "
        "answer for strings, False for missing values and numbers. standardize cases: tables mixing valid, non-standard and junk symbols, "
        "missing cells and extra columns x option combinations; monitors: caller's table fingerprint unchanged; rows, order, index, other "
        "columns preserved; col_mapper applied; missing stays missing; standardize=False => renamed input; every standard cell equals the "
        "tidytcells standardiser called on that one cell with the documented options; row permutation / subset commute (cell locality). "
        "multimerge cases: 2-4 tables with partially overlapping keys (index or named column, with and without suffixes, how override) "
        "compared as a multiset of rows with a dictionary join. distinct_nontrivial = distinct cases.")
ASSUMPTIONS = ["tidytcells' standardise functions are the reference the property itself names; cells are strings or missing",
               "multimerge without suffixes is given distinct value-column names; keys are unique within a table except in the dedicated duplicate-key cases",
               "NumPy booleans count as bool"]
EXHAUSTIVE = {"quick": ["predicate corpus complete", "all 2^4 x species option combinations on the witness table (subset in quick)"],
              "thorough": ["predicate corpus complete", "all option combinations (species x functional x tcr precision x mhc precision x strict x suppress) on the witness table"]}
REQUIRE = {"predicate_objects": 200, "predicate_strings_exact": 150, "predicate_nonstrings": 60, "standardize_cases": 14,
           "standardize_cells_checked": 300, "standardize_missing_cells": 30, "standardize_col_mapper_cases": 3, "standardize_false_cases": 2,
           "standardize_locality_checks": 10, "tables_fingerprinted": 14, "multimerge_cases": 17, "multimerge_named_key_no_suffix": 6,
           "multimerge_index_key": 6, "multimerge_suffix_cases": 8, "multimerge_inner": 3, "multimerge_left_right": 4, "multimerge_identical_key_sequences": 24}
SHARDS = {"quick": 4, "thorough": 16}
AA = set("ACDEFGHIKLMNPQRSTVWY")


def self_test():
    O.self_test()


def _corpus():
    import numpy as np
    import pandas as pd
    strs = ["", "A", "C", "F", "CF", "CW", "CC", "CAF", "CASSF", "CASSLGQAYEQYF", "CASSW", "CASSC", "CASSA", "ASSF", "casf", "CAS F", "CAS1F", "CASXF",
            "CASBF", "CASZF", "CASJF", "CASOF", "CASUF", "C-F", "C.F", "C_F", "CAS*F", " CASSF", "CASSF ", "CASSF\n", "\tC", "ACDEFGHIKLMNPQRSTVWY",
            "ACDEFGHIKLMNPQRSTVWYB", "αβγ", "汉字", "\U0001F600", "CéF", "nan", "None", "NaN", "0", "123", "C1", "cF", "Cf", "FC", "WC", "FAC",
            "X", "B", "Z", "J", "O", "U", "*", "-", ".", " ", "  ", "CAS\x00F", "C" * 200 + "F", "A" * 500,
            "CASSL\udcffGQGYEQYF", "\ud800", "C\udfffF", "CASSF\x00", "\x00", "C\u200bF", "CASSF\r", "\x7f", "C\xa0F"]       # lone surrogates, NUL, invisible characters
    objs = [(s, "str") for s in strs]
    others = [None, float("nan"), np.nan, pd.NA, pd.NaT, 0, 1, -1, 7, 10 ** 20, 0.0, 1.5, -2.5, float("inf"), True, False, b"", b"CASSF", b"C", bytearray(b"CAF"),
              [], ["C", "A", "F"], ["CASSF"], [1, 2], (), ("C", "F"), ("C",), {}, {"C": 1}, {"C": 1, "F": 2}, set(), {"C"}, {"C", "F"}, frozenset({"A"}),
              np.int64(3), np.float64(2.5), np.float64("nan"), np.bool_(True), np.str_("CASSF"), np.str_(""), np.array(["C", "F"]), np.array([]), np.array([["C"]]),
              np.array(5), pd.Series(["C", "F"]), pd.Series([], dtype=object), object(), int, len, 3 + 4j, range(3), iter("CAF"), Ellipsis, NotImplemented,
              slice(1, 2), memoryview(b"CA"), pd.Timestamp("2020-01-01"), pd.DataFrame({"C": [1]}), type("Weird", (), {})()]
    objs += [(o, "other") for o in others]
    return objs


def _want_aa(s):
    return all(c in AA for c in s)


def _want_cdr3(s):
    return len(s) > 0 and _want_aa(s) and s[0] == "C" and s[-1] in "FWC"


def k_predicates(ctx, extra_strings=None):
    import numpy as np
    import pandas as pd
    import pyrepseq as prs
    objs = _corpus() + [(s, "str") for s in (extra_strings or [])]
    for obj, kind in objs:
        ctx.count("predicate_objects")
        for fn, want_fn in ((prs.isvalidaa, _want_aa), (prs.isvalidcdr3, _want_cdr3)):
            if kind == "other" and hasattr(obj, "__next__"):
                obj = iter("CAF")      # fresh iterator for each call
            out = ctx.call(fn, obj)
            name = fn.__name__
            desc = repr(obj)[:60]
            tname = type(obj).__name__
            if not out.ok:
                cls = "empty-string" if (kind == "str" and obj == "") else ("string" if kind == "str" else f"{tname}")
                ctx.violation(f"{name}:raised:{cls}", f"{name}({desc}) raised {type(out.exc).__name__} instead of returning a bool", out.describe(), "a bool")
                continue
            if not isinstance(out.value, (bool, np.bool_)):
                ctx.violation(f"{name}:not-bool:{tname}", f"{name}({desc}) returned a {type(out.value).__name__}, not a bool", out.value, "a bool")
                continue
            if kind == "str":
                ctx.count("predicate_strings_exact")
                if bool(out.value) != want_fn(obj):
                    ctx.violation(f"{name}:string:wrong", f"{name}({desc}) = {out.value}, expected {want_fn(obj)}", bool(out.value), want_fn(obj))
            else:
                ctx.count("predicate_nonstrings")
                is_missing_or_number = obj is None or obj is pd.NA or obj is pd.NaT or isinstance(obj, (int, float, complex, np.number)) and not isinstance(obj, (bool, np.bool_))
                if is_missing_or_number and bool(out.value):
                    ctx.violation(f"{name}:missing-or-number:true", f"{name}({desc}) is True for a missing value / number", True, False)
    ctx.nontriv(["pred", len(objs)])
    ctx.nontriv(["pred-extra", extra_strings and extra_strings[:5]])
    ctx.sample("predicates", {"objects": len(objs), "examples": ["", "CASSF", None, 1.5, b"CASSF", []]})


STD_COLS = ["TRAV", "CDR3A", "TRAJ", "TRBV", "CDR3B", "TRBJ", "Epitope", "MHCA", "MHCB"]
POOL = {
    "TRAV": ["TRAV1-1*01", "av26.1*1", "TCRAV20*01", "unknown", "TRAV40*01", "trav12-2", "TRAV8-5*01", None, "foo"],
    "TRAJ": ["TRAJ43", "aj43*1", "TCRAJ28*01", "unknown", None, "TRAJ1*01"],
    "TRBV": ["TRBV9*01", "bv13*1", "TCRBV28S1*01", "TRBV7-2*01", "TRBV1*01", "junk!", None, "trbv7-2"],
    "TRBJ": ["TRBJ2-4*01", "bj1.5*1", "TCRBJ2S6*01", None, "nope", "TRBJ2-2P*01"],
    "CDR3A": ["CIVRAPGRADMRF", "CAVPSGAGSYQLTF", "unknown", "ASSF", "casf", "CAS1F", None, "", "CASSC", "C"],
    "CDR3B": ["CASSYLPGQGDHYSNQPQHF", "CASSLGQSGANVLTF", "ASSLGQ", "cassf", None, "CAS F", "CASSDWGSQNTLYF", "CAVC", "CC", "CASSW"],
    "Epitope": ["FLKEKGGL", "LQPFPQPELPYPQPQ", "not an epitope!", "gilgfvftl", None, "YMPYFFTLL"],
    "MHCA": ["b8", "HLA-DQA1*05", "HLA-A*02", "HLA-A*02:01:01", "junk", None, "H2-Kb"],
    "MHCB": ["b2m", "HLA-DQB1*02", "B2M", None, "zzz"],
}


def _ref_cell(col, x, opt):
    """tidytcells standardisation of one cell under the documented options (the reference the property names)."""
    import tidytcells as tt
    sw = True
    if col in ("CDR3A", "CDR3B"):
        return tt.junction.standardize(seq=x, strict=opt.get("strict_cdr3_standardization", False), suppress_warnings=sw)
    if col in ("TRAV", "TRAJ", "TRBV", "TRBJ"):
        return tt.tr.standardize(gene=x, species=opt.get("species", "HomoSapiens"), enforce_functional=opt.get("tcr_enforce_functional", True),
                                 precision=opt.get("tcr_precision", "gene"), suppress_warnings=sw)
    if col in ("MHCA", "MHCB"):
        return tt.mh.standardize(gene=x, species=opt.get("species", "HomoSapiens"), precision=opt.get("mhc_precision", "gene"), suppress_warnings=sw)
    if col == "Epitope":
        return tt.aa.standardize(seq=x, on_fail="keep", suppress_warnings=sw)
    raise KeyError(col)


def _isna(v):
    import pandas as pd
    try:
        return bool(pd.isna(v))
    except Exception:
        return False


def _frame(rows, cols, index):
    import pandas as pd
    df = pd.DataFrame([list(r) for r in rows], columns=cols, dtype=object)
    n = len(rows)
    if index == "shifted":
        df.index = range(10, 10 + n)
    elif index == "string":
        df.index = [f"r{i}" for i in range(n)]
    elif index == "permuted":
        idx = list(range(n))
        random.Random(n + 5).shuffle(idx)
        df.index = idx
    elif index == "duplicated":
        df.index = [i // 2 for i in range(n)]
    return df


def k_standardize(ctx, rows, cols, options, col_mapper=None, index=None):
    """cols: names in the *input* table; col_mapper maps some of them to standard names."""
    import pandas as pd
    import pyrepseq as prs
    df = _frame(rows, cols, index)
    if "count" in cols:
        df["count"] = df["count"].astype(int)
    fp = canon.fingerprint(df)
    opt = dict(options)
    ctx.count("standardize_cases")
    ctx.nontriv(["std", rows, cols, options, col_mapper, index])
    ctx.sample("standardize", {"cols": cols, "rows": rows[:3], "options": options, "col_mapper": col_mapper, "index": index})
    kw = dict(opt)
    kw["suppress_warnings"] = options.get("suppress_warnings", True)
    if col_mapper:
        kw["col_mapper"] = dict(col_mapper)
        ctx.count("standardize_col_mapper_cases")
    out = ctx.call(prs.standardize_dataframe, df, **kw)
    ctx.count("tables_fingerprinted")
    if canon.fingerprint(df) != fp:
        ctx.violation("standardize_dataframe:input-modified", "the caller's table was modified", list(df.columns), "unchanged input")
    if col_mapper and kw["col_mapper"] != col_mapper:
        ctx.count("col_mapper_dict_modified")               # option-dictionary purity is C20's property: observation only here
    if not out.ok:
        ctx.violation(f"standardize_dataframe:raised:{type(out.exc).__name__}", "standardize_dataframe raised", out.describe(), None)
        return
    res = out.value
    newcols = [col_mapper.get(c, c) if col_mapper else c for c in cols]
    if sorted(map(str, res.columns)) != sorted(map(str, newcols)):
        ctx.violation("standardize_dataframe:columns", "columns are not the (renamed) input columns", list(res.columns), newcols)
        return
    res = res[newcols]                       # column order is not part of the property
    if len(res) != len(df) or list(res.index) != list(df.index):
        ctx.violation("standardize_dataframe:rows-or-index", "row count / order / index not preserved", list(res.index)[:10], list(df.index)[:10])
        return
    do_std = options.get("standardize", True)
    if not do_std:
        ctx.count("standardize_false_cases")
    for ci, (old, new) in enumerate(zip(cols, newcols)):
        for ri in range(len(rows)):
            x = df.iloc[ri, ci]
            got = res.iloc[ri, ci]
            if new in STD_COLS and do_std:
                ctx.count("standardize_cells_checked")
                if _isna(x):
                    ctx.count("standardize_missing_cells")
                    if not _isna(got):
                        ctx.violation("standardize_dataframe:missing-not-kept", f"missing cell in {new} became {got!r}", got, None)
                        return
                    continue
                want = _ref_cell(new, x, opt)
                same = (_isna(want) and _isna(got)) or (not _isna(want) and not _isna(got) and got == want)
                if not same:
                    which = "gene" if new.startswith("TR") else ("cdr3" if new.startswith("CDR3") else ("mhc" if new.startswith("MHC") else "epitope"))
                    ctx.violation(f"standardize_dataframe:cell:{which}", f"{new}[{ri}]: {x!r} became {got!r}; the reference standardiser under the documented options gives {want!r}",
                                  got, want, {"options": options})
                    return
            else:
                same = (_isna(x) and _isna(got)) or (not _isna(x) and not _isna(got) and got == x)
                if not same:
                    ctx.violation("standardize_dataframe:other-cell-changed", f"cell of column {new} that must be preserved changed: {x!r} -> {got!r}", got, x)
                    return
    # cell locality: permuting / sub-setting rows commutes with the call
    if len(rows) >= 2 and do_std:
        perm = list(range(len(rows)))
        random.Random(len(rows) * 3 + 1).shuffle(perm)
        sub = perm[: max(1, len(perm) // 2)]
        o2 = ctx.call(prs.standardize_dataframe, df.iloc[sub], **kw)
        ctx.count("standardize_locality_checks")
        if not o2.ok:
            ctx.violation("standardize_dataframe:locality:raised", "raised on a row subset", o2.describe(), None)
        else:
            want = res.iloc[sub]
            o2v = o2.value[newcols] if sorted(map(str, o2.value.columns)) == sorted(map(str, newcols)) else o2.value
            a = o2v.astype(object).where(~o2v.isna(), None)
            b = want.astype(object).where(~want.isna(), None)
            if list(a.index) != list(b.index) or a.values.tolist() != b.values.tolist():
                ctx.violation("standardize_dataframe:not-cell-local", "standardising a permuted row subset differs from the subset of the standardised table",
                              a.values.tolist()[:4], b.values.tolist()[:4])


def _join(tables, key_of, how):
    """dictionary join: tables = list of list of (key, {col: val}); returns Counter of frozenset(row items) incl. key."""
    keys_per = [collections.defaultdict(list) for _ in tables]
    for t, kp in zip(tables, keys_per):
        for k, row in t:
            kp[k].append(row)
    allcols = [sorted({c for _, row in t for c in row}) for t in tables]
    # left-fold like reduce(pd.merge)
    cur = {k: list(v) for k, v in keys_per[0].items()}
    curcols = list(allcols[0])
    for ti in range(1, len(tables)):
        nxt = keys_per[ti]
        ks = {"outer": set(cur) | set(nxt), "inner": set(cur) & set(nxt), "left": set(cur), "right": set(nxt)}[how]
        new = {}
        for k in ks:
            lefts = cur.get(k) or [{c: None for c in curcols}]
            rights = nxt.get(k) or [{c: None for c in allcols[ti]}]
            new[k] = [dict(l, **r) for l in lefts for r in rights]
        cur = new
        curcols = curcols + allcols[ti]
    out = collections.Counter()
    for k, rows in cur.items():
        for r in rows:
            full = {c: r.get(c) for c in curcols}
            out[(k, tuple(sorted((c, _norm(v)) for c, v in full.items())))] += 1
    return out, curcols


def _norm(v):
    if v is None or _isna(v):
        return None
    if isinstance(v, (int, float)) and not isinstance(v, bool):
        return float(v)
    try:
        import numpy as np
        if isinstance(v, np.generic):
            return _norm(v.item())
    except Exception:
        pass
    return v


def k_multimerge(ctx, tables, on, suffixes=None, how=None, same_keys=False):
    """tables: list of {name, cols, rows:[[key, v1, ...]]}; key stored in column `on` (or in the index when on == 'index')."""
    import pandas as pd
    import pyrepseq as prs
    dfs = []
    for t in tables:
        df = pd.DataFrame(t["rows"], columns=["__key__"] + t["cols"])
        if on == "index":
            df = df.set_index("__key__")
            df.index.name = None
        else:
            df = df.rename(columns={"__key__": on})
        dfs.append(df)
    fps = [canon.fingerprint(d) for d in dfs]
    ctx.count("multimerge_cases")
    if same_keys:
        ctx.count("multimerge_identical_key_sequences")
    ctx.nontriv(["mm", tables, on, suffixes, how])
    if on == "index":
        ctx.count("multimerge_index_key")
    elif not suffixes:
        ctx.count("multimerge_named_key_no_suffix")
    if suffixes:
        ctx.count("multimerge_suffix_cases")
    if how == "inner":
        ctx.count("multimerge_inner")
    if how in ("left", "right"):
        ctx.count("multimerge_left_right")
    ctx.sample(f"multimerge:{'index' if on == 'index' else 'named'}:{'suffixes' if suffixes else 'plain'}", {"tables": tables[:2], "on": on, "suffixes": suffixes, "how": how})
    kw = {}
    if how:
        kw["how"] = how
    out = ctx.call(prs.multimerge, dfs, on, suffixes=suffixes, **kw) if suffixes else ctx.call(prs.multimerge, dfs, on, **kw)
    form = ("index" if on == "index" else "named-key") + (":suffixes" if suffixes else ":no-suffixes")
    if [canon.fingerprint(d) for d in dfs] != fps:
        ctx.violation("multimerge:input-modified", "an input table was modified", None, None)
    if not out.ok:
        ctx.violation(f"multimerge:{form}:raised:{type(out.exc).__name__}", "multimerge raised", out.describe(), None)
        return
    res = out.value
    model = []
    for ti, t in enumerate(tables):
        rows = []
        for r in t["rows"]:
            cols = t["cols"] if not suffixes else [f"{c}_{suffixes[ti]}" for c in t["cols"]]
            rows.append((_norm(r[0]), dict(zip(cols, r[1:]))))
        model.append(rows)
    want, wantcols = _join(model, None, how or "outer")
    got = collections.Counter()
    keyed_by_index = on == "index" or on not in res.columns      # the key may come back as the index or as a column
    try:
        for i in range(len(res)):
            row = res.iloc[i]
            k = _norm(res.index[i]) if keyed_by_index else _norm(row[on])
            items = tuple(sorted((c, _norm(row[c])) for c in res.columns if keyed_by_index or c != on))
            got[(k, items)] += 1
    except Exception as e:
        ctx.violation(f"multimerge:{form}:malformed", f"result cannot be read as a keyed table: {e}", res, None)
        return
    if got != want:
        miss = list((want - got).elements())[:3]
        extra = list((got - want).elements())[:3]
        ctx.violation(f"multimerge:{form}:{how or 'outer'}:wrong-join", f"result is not the {how or 'outer'} join of the tables on the key: missing {miss}, unexpected {extra}",
                      sorted(map(str, got.elements()))[:6], sorted(map(str, want.elements()))[:6])


KINDS = {"predicates": k_predicates, "standardize": k_standardize, "multimerge": k_multimerge}

WIT_COLS = STD_COLS + ["count", "note"]
WIT_ROWS = [
    ["av26.1*1", "CIVRAPGRADMRF", "aj43*1", "bv13*1", "CASSYLPGQGDHYSNQPQHF", "bj1.5*1", "FLKEKGGL", "b8", "b2m", 1, "x"],
    ["TCRAV20*01", "CAVPSGAGSYQLTF", "TCRAJ28*01", "TCRBV28S1*01", "CASSLGQSGANVLTF", "TCRBJ2S6*01", "LQPFPQPELPYPQPQ", "HLA-DQA1*05", "HLA-DQB1*02", 2, None],
    ["unknown", "unknown", "unknown", "TRBV7-2*01", "CASSDWGSQNTLYF", "TRBJ2-4*01", "YMPYFFTLL", "HLA-A*02", "B2M", 3, "z"],
    [None, "ASSF", None, "TRBV1*01", None, None, "not an epitope!", None, "zzz", 4, "w"],
    ["TRAV1-1*01", "casf", "TRAJ1*01", "TRBV9*01", "ASSLGQ", "TRBJ2-2P*01", None, "HLA-A*02:01:01", None, 5, ""],
    ["TRAV8-5*01", "CASSC", "TRAJ51*01", "TRBV17*01", "C", "TRBJ2-7*02", "GILGFVFTL", "H2-Kb", "B2M", 6, "v"],
]


def _rand_rows(rng, cols, n):
    rows = []
    for _ in range(n):
        r = []
        for c in cols:
            if c in POOL:
                r.append(rng.choice(POOL[c]))
            elif c == "count":
                r.append(rng.randint(0, 9))
            else:
                r.append(rng.choice(["x", "y", None, ""]))
        rows.append(r)
    return rows


def _opts(rng, full=False):
    o = {}
    if full or rng.random() < 0.5:
        o["species"] = rng.choice(["HomoSapiens", "HomoSapiens", "MusMusculus"])
    if full or rng.random() < 0.5:
        o["tcr_enforce_functional"] = rng.random() < 0.5
    if full or rng.random() < 0.5:
        o["tcr_precision"] = rng.choice(["gene", "allele"])
    if full or rng.random() < 0.5:
        o["mhc_precision"] = rng.choice(["gene", "protein", "allele"])
    if full or rng.random() < 0.5:
        o["strict_cdr3_standardization"] = rng.random() < 0.5
    return o


def _mm_tables(rng, nt, dup=False):
    tables = []
    keyspace = ["k1", "k2", "k3", "k4", "k5", "k6"] if rng.random() < 0.5 else [1, 2, 3, 4, 5, 6]
    for ti in range(nt):
        ks = rng.sample(keyspace, rng.randint(1, 5))
        if dup and ti == 0 and len(ks) > 1:
            ks.append(ks[0])
        ncol = rng.randint(1, 2)
        cols = [f"v{ti}{chr(97 + j)}" for j in range(ncol)]
        rows = [[k] + [rng.choice([1, 2.5, "s", "t", 7]) if j else rng.randint(0, 50) for j in range(ncol)] for k in ks]
        tables.append({"name": f"t{ti}", "cols": cols, "rows": rows})
    return tables


def generate(tier, seed):
    rng = random.Random(18000 + seed)
    thorough = tier == "thorough"
    yield "predicates", {}, True
    for i in range(20 if thorough else 3):
        extra = [G.rand_string(rng, "ACDEFGHIKLMNPQRSTVWYBXZ* acf1", 0, 12) for _ in range(60)] + \
                ["C" + G.rand_string(rng, G.AA, 0, 15) + rng.choice("FWCAY") for _ in range(40)]
        yield "predicates", {"extra_strings": extra}, i < 2
    # witness table x option combinations
    combos = list(itertools.product(["HomoSapiens", "MusMusculus"], [True, False], ["gene", "allele"], ["gene", "protein", "allele"], [False, True]))
    if not thorough:
        combos = combos[::5]
    for sp, ef, tp, mp, st in combos:
        yield "standardize", {"rows": WIT_ROWS, "cols": WIT_COLS, "options": {"species": sp, "tcr_enforce_functional": ef, "tcr_precision": tp,
                                                                           "mhc_precision": mp, "strict_cdr3_standardization": st}}, True
    yield "standardize", {"rows": WIT_ROWS, "cols": WIT_COLS, "options": {}}, True
    yield "standardize", {"rows": WIT_ROWS, "cols": WIT_COLS, "options": {"standardize": False}, "index": "string"}, True
    yield "standardize", {"rows": WIT_ROWS, "cols": WIT_COLS, "options": {"suppress_warnings": False}, "index": "shifted"}, True
    yield "standardize", {"rows": WIT_ROWS, "cols": WIT_COLS, "options": {"tcr_precision": "allele"}, "index": "duplicated"}, True
    yield "standardize", {"rows": [list(reversed(r)) for r in WIT_ROWS], "cols": list(reversed(WIT_COLS)), "options": {}, "index": "permuted"}, True
    # several spellings of one value within a column (case, surrounding blanks): every cell is standardised on its own
    sp_rows = []
    for (a3, b3, epi) in (("CAVRDSNYQLIW", "CASSF", "SIINFEKL"), ("cavrdsnyqliw", " CASSF", "siinfekl"), ("CAVRDSNYQLIW ", "cassf", "SIINFEKL "),
                          (" CAVRDSNYQLIW", "CASSF ", "Siinfekl"), ("CAVRDSNYQLIW", "CASSF", "MART-1"), ("CAVRDSNYQLIW", "CASSF", "Mart-1")):
        sp_rows.append(["TRAV1-2*01", a3, "TRAJ33*01", "TRBV6-1*01", b3, "TRBJ2-1*01", epi, "HLA-A*02", "B2M", len(sp_rows), "n"])
    yield "standardize", {"rows": sp_rows, "cols": WIT_COLS, "options": {}}, True
    yield "standardize", {"rows": list(reversed(sp_rows)), "cols": WIT_COLS, "options": {"strict_cdr3_standardization": True}, "index": "string"}, True
    mapper = {"foo": "TRBV", "bar": "CDR3B", "baz": "TRBJ"}
    rows3 = [[r[3], r[4], r[5], r[9]] for r in WIT_ROWS]
    yield "standardize", {"rows": rows3, "cols": ["foo", "bar", "baz", "count"], "options": {}, "col_mapper": mapper}, True
    yield "standardize", {"rows": rows3, "cols": ["foo", "bar", "baz", "count"], "options": {"standardize": False}, "col_mapper": mapper, "index": "permuted"}, True
    yield "standardize", {"rows": rows3, "cols": ["foo", "bar", "baz", "count"], "options": {"tcr_precision": "allele"}, "col_mapper": mapper, "index": "string"}, True
    for i in range(400 * TS if thorough else 24):
        k = rng.randint(1, 9)
        cols = rng.sample(STD_COLS, k) + (["count"] if i % 2 else []) + (["note"] if i % 3 == 0 else [])
        rng.shuffle(cols)
        rows = _rand_rows(rng, cols, rng.randint(1, 8))
        opts = _opts(rng, full=i % 4 == 0)
        if i % 9 == 0:
            opts["standardize"] = False
        p = {"rows": rows, "cols": cols, "options": opts, "index": [None, "shifted", "string", "permuted", "duplicated"][i % 5]}
        if i % 5 == 0:
            std_in = [c for c in cols if c in STD_COLS][:2]
            if std_in:
                ren = {f"orig_{c}": c for c in std_in}
                p["cols"] = [f"orig_{c}" if c in std_in else c for c in cols]
                p["col_mapper"] = ren
        yield "standardize", p, i < 12
    # long, repetitive tables with missing cells (size- and cardinality-dependent paths)
    for i in range(40 if thorough else 4):
        cols = ["TRAV", "TRAJ", "TRBV", "TRBJ", "CDR3B", "MHCA", "count"]
        n = rng.randint(34, 90)
        few = {c: rng.sample(POOL[c], 3) for c in cols if c in POOL}
        rows = []
        for r in range(n):
            row = []
            for c in cols:
                if c == "count":
                    row.append(r)
                else:
                    row.append(None if rng.random() < 0.12 else rng.choice(few[c]))
            rows.append(row)
        yield "standardize", {"rows": rows, "cols": cols, "options": _opts(rng, full=i % 2 == 0), "index": [None, "string", "duplicated", "permuted"][i % 4]}, True
    # multimerge
    base = [{"name": "a", "cols": ["x"], "rows": [["k1", 1], ["k2", 2]]}, {"name": "b", "cols": ["y"], "rows": [["k2", 3], ["k3", 4]]}]
    yield "multimerge", {"tables": base, "on": "k"}, True                       # D11 class: named key, no suffixes
    yield "multimerge", {"tables": base, "on": "k", "suffixes": ["s1", "s2"]}, True
    yield "multimerge", {"tables": base, "on": "index"}, True
    yield "multimerge", {"tables": base, "on": "index", "suffixes": ["s1", "s2"]}, True
    yield "multimerge", {"tables": base, "on": "k", "how": "inner"}, True
    # a key value repeated within a table (one-to-many joins), with and without suffixes
    dupk = [{"name": "a", "cols": ["x"], "rows": [["k1", 1], ["k2", 2], ["k2", 3]]}, {"name": "b", "cols": ["y"], "rows": [["k2", 4], ["k3", 5], ["k2", 6]]},
            {"name": "c", "cols": ["z"], "rows": [["k2", 7], ["k1", 8]]}]
    for on in ("k", "index"):
        for suf in (None, ["s1", "s2", "s3"]):
            yield "multimerge", {"tables": dupk, "on": on, "suffixes": suf}, True
            yield "multimerge", {"tables": dupk[:2], "on": on, "suffixes": suf and suf[:2]}, True
    # every table lists the same key sequence, with a repeated key (a join is the per-key product, not a row-by-row pairing); also unique equal keys
    same = [{"name": "a", "cols": ["x"], "rows": [["c1", 1], ["c2", 2], ["c1", 3]]}, {"name": "b", "cols": ["y"], "rows": [["c1", 4], ["c2", 5], ["c1", 6]]},
            {"name": "c", "cols": ["z"], "rows": [["c1", 7], ["c2", 8], ["c1", 9]]}]
    sameu = [{"name": "a", "cols": ["x"], "rows": [["c2", 1], ["c1", 2]]}, {"name": "b", "cols": ["y"], "rows": [["c2", 4], ["c1", 5]]}]
    for on in ("k", "index"):
        for how in (None, "inner", "left"):
            yield "multimerge", {"tables": same, "on": on, "suffixes": ["s1", "s2", "s3"], "how": how, "same_keys": True}, True
            yield "multimerge", {"tables": same[:2], "on": on, "suffixes": ["s1", "s2"], "how": how, "same_keys": True}, True
            yield "multimerge", {"tables": same[:2], "on": on, "how": how, "same_keys": True}, True
            yield "multimerge", {"tables": sameu, "on": on, "suffixes": ["s1", "s2"], "how": how, "same_keys": True}, True
    # key columns with falsy labels (the column named 0 of header-less tables, the empty string)
    for on in (0, ""):
        yield "multimerge", {"tables": base, "on": on}, True
        yield "multimerge", {"tables": base, "on": on, "suffixes": ["s1", "s2"]}, True
    four = [{"name": "a", "cols": ["x"], "rows": [["k1", 1], ["k2", 2], ["k3", 3]]}, {"name": "b", "cols": ["y"], "rows": [["k2", 3], ["k3", 4]]},
            {"name": "c", "cols": ["z"], "rows": [["k2", 5], ["k4", 6]]}, {"name": "d", "cols": ["w"], "rows": [["k1", 7], ["k3", 8], ["k4", 9]]}]
    for how in ("left", "right", "inner", None):
        for on, suf in (("k", None), ("index", None), ("k", ["s1", "s2", "s3", "s4"])):
            yield "multimerge", {"tables": four, "on": on, "suffixes": suf, "how": how}, True
    for i in range(600 * TS if thorough else 60):
        nt = rng.randint(2, 4)
        tables = _mm_tables(rng, nt, dup=(i % 11 == 0))
        on = "index" if i % 3 == 0 else "key"
        suffixes = [f"s{j}" for j in range(nt)] if i % 2 else None
        how = "inner" if i % 7 == 0 else ("left" if i % 7 == 3 else ("right" if i % 7 == 5 else None))
        yield "multimerge", {"tables": tables, "on": on, "suffixes": suffixes, "how": how}, i < 30
