"""C04 - hash_based and kdtree return the same exact neighbour set as the default search."""
import random

from vmon import gens as G
from vmon.gens import THOROUGH_SCALE as TS
from vmon import oracles as O
from vmon import search as S

PID = "C04"
RULE = ("each case = one amino-acid string collection x max_edits x subset of engines; every engine's "
        "triplet multiset is compared with the double-loop Levenshtein oracle (not merely with symdel) and "
        "the engines with each other. Exhaustive universes on 3-letter sub-alphabets straddling kdtree's "
        "composition bins (ACD adjacent, AWY far apart, CDY mixed); radius-boundary family x^k.W vs y^k.W "
        "(composition distance exactly sqrt(2)k); indels next to repeated letters; CDR3-like repertoires. "
        "One extra case re-runs the repository's own search tests with icontract post-conditions on the four engines. "
        "distinct_nontrivial = distinct (sequences, k, engines) with a non-empty oracle neighbour set.")
ASSUMPTIONS = ["20-letter amino-acid alphabet only (kdtree and hash_based enumerate it)",
               "hash_based is exponential in max_edits: k=2 only on strings of length<=6 and <=25 per call, k=3 on length<=2"]
EXHAUSTIVE = {"quick": ["all strings len<=4 over ACD / AWY / CDY: kdtree k=1..3, hash_based k=1",
                        "radius-boundary pairs for k=1..8"],
              "thorough": ["all strings len<=5 over ACD / AWY / CDY: kdtree k=1..3, hash_based k=1",
                           "all strings len<=4 over ACD / AWY / CDY: hash_based k=2", "all len<=2 over ACD: hash_based k=3",
                           "radius-boundary pairs for k=1..12",
                           "every string len<=3 over AC paired with each of its one-edit variants"]}
REQUIRE = {"big_inputs": 1, "residue_count_256_cases": 1, "kdtree_calls": 40, "hash_based_calls": 29, "hash_based_k>=2": 5, "kdtree_k>=2": 10,
           "radius_boundary_cases": 8, "inputs_with_indel_neighbour_pairs": 20, "inputs_with_d0_pairs": 10,
           "inputs_empty-string": 3, "engine_pairs_compared": 50, "suite_contract_evaluations": 15, "triplets_compared": 1000}
SHARDS = {"quick": 6, "thorough": 16}


def self_test():
    O.self_test()


def k_engines(ctx, seqs, k, engines, tag=None):
    exp = O.neigh_self(seqs, k)
    S.class_counters(ctx, seqs, k, exp)
    if exp:
        ctx.nontriv([seqs, k, engines])
    if tag:
        ctx.count(tag)
    ctx.sample("engines" if not tag else tag, {"seqs": seqs[:10], "n": len(seqs), "k": k, "engines": engines,
                                               "neighbour_triplets": sum(exp.values())})
    results = {}
    for name in engines:
        fn = S.engine(name)
        if (len(seqs) + k) % 3 == 0:
            out = ctx.call(fn, list(seqs), k)             # positional max_edits
        else:
            out = ctx.call(fn, list(seqs), max_edits=k)
        ctx.count(f"{name}_calls")
        if k >= 2:
            ctx.count(f"{name}_k>=2")
        if S.expect_triplets(ctx, out, exp, name, "self"):
            results[name] = O.canon_triplets(out.value)
        elif out.ok:
            try:
                results[name] = O.canon_triplets(out.value)
            except Exception:
                pass
    names = sorted(results)
    for i, a in enumerate(names):
        for b in names[i + 1:]:
            ctx.count("engine_pairs_compared")
            if results[a] != results[b]:
                d = O.diff_triplets(results[a], results[b])
                ctx.violation(f"{a}-vs-{b}:disagree", f"engines disagree on the same input: {d}",
                              sorted(results[a].elements())[:30], sorted(results[b].elements())[:30])


def k_big(ctx, n, k, np_seed):
    """thousands of sequences: kdtree (and the default search) against the independent large-input oracle for max_edits = 1,
    and against each other for larger radii (sizes straddling 2^13, 2^14, 2^15: block and index-width boundaries)"""
    rng = random.Random(np_seed)
    seqs = G.repertoire(rng, n, families=max(1, n // 3))
    ctx.count("big_inputs")
    ctx.count(f"big_inputs_over_{(n - 1).bit_length() - 1}_bits")
    ctx.nontriv(["big", n, k, np_seed])
    ctx.sample("big", {"n": n, "k": k, "first": seqs[:5]})
    kd = ctx.call(S.engine("kdtree"), list(seqs), max_edits=k)
    nnb = ctx.call(S.engine("nearest_neighbor"), list(seqs), max_edits=k)
    if k == 1:
        exp = O.neigh_self_k1_big(seqs)
        S.expect_triplets(ctx, kd, exp, "kdtree", "self-big")
        S.expect_triplets(ctx, nnb, exp, "nearest_neighbor", "self-big")
    elif kd.ok and nnb.ok:
        a, b = O.canon_triplets(kd.value), O.canon_triplets(nnb.value)
        if a != b:
            d = O.diff_triplets(a, b)
            ctx.violation("kdtree-vs-nearest_neighbor:big:disagree", f"kdtree and the default search disagree on {n} sequences: {str(d)[:300]}", None, None)
    else:
        ctx.violation("kdtree:big:raised", "a search on a large input raised", (kd if not kd.ok else nnb).describe(), None)


def k_suite(ctx):
    """The repository's own search tests, re-run with icontract post-conditions on the four engines (vmon/suite_plugin.py)."""
    import json
    import os
    import subprocess
    import tempfile
    from vmon import core
    fd, out = tempfile.mkstemp(prefix="vmon-suite-", suffix=".json")
    os.close(fd)
    env = dict(os.environ, VMON_SUITE_OUT=out,
               PYTHONPATH=os.pathsep.join([core.VERIF, os.path.join(core.VERIF, ".deps"), core.REPO]))
    try:
        subprocess.run([os.sys.executable, "-m", "pytest", "-q", "-p", "no:cacheprovider", "-p", "vmon.suite_plugin",
                        "tests/test_nearest_neighbor.py"], cwd=core.REPO, env=env, capture_output=True, text=True, timeout=600)
        with open(out) as f:
            st = json.load(f)
    finally:
        if os.path.exists(out):
            os.remove(out)
    ctx.nontriv(["suite", sorted(st["evaluations"].items())])
    ctx.sample("suite_under_contracts", st["evaluations"])
    for fn, n in st["evaluations"].items():
        ctx.count("suite_contract_evaluations", n)
        ctx.count(f"suite_contract_evaluations:{fn}", n)
    for v in st["violations"]:
        if "contract_error" in v:
            raise RuntimeError(f"suite contract failed to evaluate: {v}")
        ctx.violation(f"suite:{v['function']}:{'default' if v['mode'] == 'None' else v['mode'][:20]}",
                      "a post-condition fired while the repository's own tests were running", v, None)


KINDS = {"engines": k_engines, "suite": k_suite, "big": k_big}

ALL3 = ["nearest_neighbor", "hash_based", "kdtree"]


def generate(tier, seed):
    rng = random.Random(4000 + seed)
    thorough = tier == "thorough"
    yield "suite", {}, True
    L = 5 if thorough else 4
    for alpha in ("ACD", "AWY", "CDY"):
        u = G.universe(alpha, L)
        for k in (1, 2, 3):
            yield "engines", {"seqs": u, "k": k, "engines": ["nearest_neighbor", "kdtree"] + (["hash_based"] if k == 1 else [])}, True
        if thorough:
            yield "engines", {"seqs": G.universe(alpha, 4), "k": 2, "engines": ["hash_based"]}, True
    yield "engines", {"seqs": G.universe("ACD", 2), "k": 3, "engines": ALL3}, True
    yield "engines", {"seqs": G.universe("WY", 2) + G.universe("AC", 2), "k": 2, "engines": ALL3}, True
    # radius boundary: x^k W vs y^k W
    kmax = 12 if thorough else 8
    for k in range(1, kmax + 1):
        for a, b in (("A", "C"), ("A", "Y"), ("W", "Y"), ("K", "L")):
            seqs = [a * k + "W", b * k + "W", a * k, b * k, a * (k - 1) + b + "W"]
            yield "engines", {"seqs": seqs, "k": k, "engines": ["nearest_neighbor", "kdtree"] + (["hash_based"] if k <= 2 else []),
                              "tag": "radius_boundary_cases"}, True
    # a residue repeated 254..257 times (composition counts around 2^8)
    for k in (1, 2):
        seqs = ["A" * 255, "A" * 256, "A" * 257, "C" + "A" * 256 + "F", "C" + "A" * 255 + "G" + "F", "A" * 254 + "C", "A" * 256]
        yield "engines", {"seqs": seqs, "k": k, "engines": ["nearest_neighbor", "kdtree"] + (["hash_based"] if k == 1 else []), "tag": "residue_count_256_cases"}, True
    if thorough:
        # sequences of 33-36 residues at max_edits = 2 (edit balls of about a million strings per query), neighbours one and two residues longer
        b33 = "".join(rng.choice(G.AA) for _ in range(33))
        yield "engines", {"seqs": [b33, b33 + "WY", b33[:10] + "K" + b33[10:], b33 + "A", b33[:-2], b33[:20] + "WW" + b33[20:]], "k": 2, "engines": ALL3,
                          "tag": "long_queries_k2_cases"}, True
    # sizes just beyond a power of two
    for j, n in enumerate([9001] if not thorough else [8193, 9001, 16385, 17000, 32769]):
        yield "big", {"n": n, "k": 1, "np_seed": 4400 + seed + j}, True
    if thorough:
        yield "big", {"n": 8200, "k": 2, "np_seed": 4500 + seed}, True
    # all strings of one length (no other length present): shift pairs need an intermediate of another length
    for alpha, L in (("AC", 4), ("ACD", 3), ("AC", 5)):
        u = [x for x in G.universe(alpha, L, L)]
        yield "engines", {"seqs": u, "k": 2, "engines": ALL3}, True
    yield "engines", {"seqs": ["CASSLGF", "ASSLGFC", "CASSLGW", "SSLGFCA", "CASSLGF"], "k": 2, "engines": ALL3}, True
    # indels next to repeated letters
    runs = ["AAC", "AACC", "ACC", "AAAC", "CAAC", "ACCA", "AAA", "AA", "A", "", "CC", "CAC", "ACA", "AACA", "CAAA"]
    yield "engines", {"seqs": runs, "k": 1, "engines": ALL3}, True
    yield "engines", {"seqs": runs, "k": 2, "engines": ALL3}, True
    for s in (["A"], [""], ["", ""], ["CASSLGF"], ["A", "A", "A"]):
        yield "engines", {"seqs": s, "k": 1, "engines": ALL3}, True
    if thorough:
        for x in G.universe("AC", 3):
            ball = sorted(O.lev1_ball(x, "ACD"))
            yield "engines", {"seqs": [x] + ball, "k": 1, "engines": ALL3}, True
    # random multisets on sub-alphabets
    pools = [G.universe("ACD", 4), G.universe("AWY", 4), G.universe("CDY", 4), G.universe("AC", 6),
             G.universe("ACDEFGHIKLMNPQRSTVWY", 1) + G.universe("AY", 4)]
    n_rand = 5000 * TS if thorough else 260
    for i in range(n_rand):
        pool = pools[i % len(pools)]
        k = rng.choice([1, 1, 1, 2, 2, 3])
        if k == 1:
            seqs = G.small_multiset(rng, pool, 1, 60)
            eng = ALL3
        elif k == 2:
            seqs = G.small_multiset(rng, pool, 1, 25)
            eng = ALL3 if i % 2 == 0 else ["nearest_neighbor", "kdtree"]
        else:
            seqs = G.small_multiset(rng, pool, 1, 40)
            eng = ["nearest_neighbor", "kdtree"]
        yield "engines", {"seqs": seqs, "k": k, "engines": eng}, i < 60
    # repertoires: kdtree up to k=6, hash_based k=1
    n_rep = 300 * TS if thorough else 30
    for i in range(n_rep):
        n = rng.randint(30, 140) if not thorough else rng.randint(50, 350)
        seqs = G.repertoire(rng, n, families=max(2, n // rng.choice([4, 8, 20])))
        if i % 4 == 0:
            seqs += ["", "C", "CF"]
        k = rng.choice([1, 1, 2, 3, 4, 6])
        eng = ALL3 if k == 1 else ["nearest_neighbor", "kdtree"]
        yield "engines", {"seqs": seqs, "k": k, "engines": eng}, i < 8
