"""C20 - calls are pure: arguments stay untouched and results ignore call history."""
import collections
import hashlib
import json
import os
import random
import subprocess
import sys
import tempfile
import time

from vmon.gens import THOROUGH_SCALE as TS

PID = "C20"
RULE = ("history cases: a sequence of 8-40 calls drawn from a catalogue of ~95 call specifications covering every module (search, "
        "statistics, metrics, clustering, entropy, io, util, plotting; valid, invalid-argument and seeded randomised calls) is executed in "
        "a child forked from a pristine interpreter; monitors after *every* call: (a) deep fingerprints of every argument before/after "
        "(also for calls that raised and calls abandoned by an exception injected at a random line inside pyrepseq), (b) fingerprints of "
        "__defaults__/__kwdefaults__ of every pyrepseq function and method and of module-level data - a change triggers the probe suite of "
        "that function, (c) the canonicalised result (triplet multisets, arrays, frames, figure artist data and colour-bar ticks) must equal "
        "the value the same specification returns alone in a fresh interpreter (computed once per run, one sub-process per specification; "
        "randomised specifications reseed NumPy immediately before the call on both sides), (d) edited-object steps: after a call the caller's "
        "data arguments are edited in place and passed again (same objects; for two-stage specifications the same constructed object) and the result "
        "must equal the specification '<name>@edited' executed alone in a fresh interpreter (caches keyed by object identity). "
        "distinct_nontrivial = distinct histories plus distinct adjacent ordered pairs of specifications.")
ASSUMPTIONS = ["history independence is judged on canonicalised values (order of unordered results, dtypes and container types are ignored)",
               "only NumPy's global RNG is reseeded (the property's wording); igraph's randomised community methods are not in the catalogue",
               "pwseqdist is the recorded stand-in (see C14)"]
EXHAUSTIVE = {"quick": ["every specification appears in some history, and once directly after every plotting specification's default call"],
              "thorough": ["every ordered pair of specifications adjacent at least once"]}
REQUIRE = {"calls_with_same_objects_edited_in_place": 47, "calls_checked_against_fresh": 266, "argument_fingerprints_compared": 300, "defaults_fingerprints_compared": 300,
           "raising_calls_checked": 11, "injected_faults": 10, "seeded_calls_checked": 20, "figure_calls_checked": 15,
           "histories": 15, "specs_covered": 50}
SHARDS = {"quick": 8, "thorough": 16}
HERE = os.path.dirname(os.path.dirname(os.path.abspath(__file__)))


def _fresh_path():
    from vmon import core
    tag = hashlib.md5(core.REPO.encode()).hexdigest()[:8]
    d = os.path.join(HERE, ".work", "C20")
    os.makedirs(d, exist_ok=True)
    return os.path.join(d, f"fresh-{tag}.json")


def _names(tier):
    """specifications of this tier (names ending in _heavy need seconds per call: thorough only)"""
    from vmon import specs
    return [n for n in specs.SPECS if tier == "thorough" or not n.endswith("_heavy")]


def _editable(tier):
    """specifications for which edited-object steps are generated (plots only in the thorough tier: each needs a new interpreter)"""
    from vmon import specs
    return [n for n in _names(tier) if tier == "thorough" or not specs.SPECS[n].fig]


def prepare(tier, seed):
    """Reference values: every specification executed alone as the first pyrepseq call of a fresh interpreter.

    thorough: one brand-new interpreter (sub-process) per specification.
    quick:    the figure and seeded specifications get a brand-new interpreter each; the others are run in children
              forked from a *template* interpreter that has imported pyrepseq and made no call (same state as a fresh
              interpreter after import, at a hundredth of the cost)."""
    from concurrent.futures import ThreadPoolExecutor
    from vmon import specs
    py = "/venv/bin/python" if os.path.exists("/venv/bin/python") else sys.executable
    names = _names(tier)
    strict = names if tier == "thorough" else [n for n in names if specs.SPECS[n].fig or specs.SPECS[n].np_seed is not None]
    rest = [n for n in names if n not in strict]
    # "<spec>@edited": the same call on arguments edited in place before the first call (reference for the edited-object steps)
    editable = _editable(tier)
    strict = strict + [n + "@edited" for n in editable if n in strict]
    rest = rest + [n + "@edited" for n in editable if n + "@edited" not in strict]

    def one(name):
        try:
            r = subprocess.run([py, "-m", "checks.c20", "fresh", name], cwd=HERE, capture_output=True, text=True, timeout=300)
            line = [l for l in r.stdout.splitlines() if l.startswith("FRESH ")]
            if r.returncode == 0 and line:
                return name, json.loads(line[-1][6:])
            return name, {"error": (r.stderr or r.stdout)[-800:]}
        except subprocess.TimeoutExpired:
            return name, {"error": "timeout"}

    def template(group):
        out = {}
        if not group:
            return out
        fd, path = tempfile.mkstemp(prefix="vmon-c20-tpl-", suffix=".json")
        os.close(fd)
        try:
            r = subprocess.run([py, "-m", "checks.c20", "template", path] + group, cwd=HERE, capture_output=True, text=True, timeout=600)
            with open(path) as f:
                out = json.load(f)
        except Exception as e:
            out = {n: {"error": f"template failed: {e}"} for n in group}
        finally:
            if os.path.exists(path):
                os.remove(path)
        for n in group:
            out.setdefault(n, {"error": "template produced no value"})
        return out
    with ThreadPoolExecutor(16) as ex:
        fut = ex.submit(template, rest)
        res = dict(ex.map(one, strict))
        res.update(fut.result())
    with open(_fresh_path(), "w") as f:
        json.dump({"values": res, "strict": strict}, f)
    # reference files of scratch copies that no longer exist (validation runs against patched trees) are pruned after a few hours
    d = os.path.dirname(_fresh_path())
    for fn in os.listdir(d):
        p = os.path.join(d, fn)
        try:
            if fn.startswith("fresh-") and p != _fresh_path() and time.time() - os.path.getmtime(p) > 6 * 3600:
                os.remove(p)
        except OSError:
            pass


_FRESH = {}
_FRESH_META = {}


def fresh():
    if not _FRESH:
        with open(_fresh_path()) as f:
            d = json.load(f)
        _FRESH.update(d["values"])
        _FRESH_META["strict"] = d["strict"]
    return _FRESH


def self_test():
    from vmon import oracles
    oracles.self_test()
    bad = {k: v for k, v in fresh().items() if isinstance(v, dict) and "error" in v}
    if bad:
        raise RuntimeError(f"fresh-interpreter reference values missing for {sorted(bad)[:5]}: {list(bad.values())[0]}")


# -------------------------------------------------------------------------------------------
# executing one specification under the monitors
# -------------------------------------------------------------------------------------------

def _close():
    try:
        import matplotlib.pyplot as plt
        plt.close("all")
    except Exception:
        pass


def edit_in_place(built):
    """The caller edits its own argument objects in place (same objects, same sizes and types): the first element / row of every
    mutable collection among the positional arguments takes the value of the last one.  Returns True if anything changed."""
    import numpy as np
    import pandas as pd
    changed = [False]

    def ed(x, depth=0):
        if isinstance(x, pd.DataFrame):
            if len(x) >= 2:
                for c in range(x.shape[1]):
                    a, b = x.iat[0, c], x.iat[len(x) - 1, c]
                    if not (a is b or (a == b) is True or (a != a and b != b)):
                        changed[0] = True
                    x.iat[0, c] = b
        elif isinstance(x, pd.Series):
            if len(x) >= 2:
                if not ((x.iloc[0] == x.iloc[-1]) is True or bool(np.all(x.iloc[0] == x.iloc[-1]))):
                    changed[0] = True
                x.iloc[0] = x.iloc[-1]
        elif isinstance(x, np.ndarray):
            if x.ndim >= 1 and x.shape[0] >= 2 and x.flags.writeable:
                if not np.array_equal(x[0], x[-1]):
                    changed[0] = True
                x[0] = x[-1]
        elif isinstance(x, list):
            if len(x) >= 2 and all(isinstance(v, (str, int, float, type(None))) for v in x):
                if x[0] != x[-1]:
                    changed[0] = True
                x[0] = x[-1]
            elif depth < 2:
                for v in x:
                    ed(v, depth + 1)
        elif isinstance(x, tuple) and depth < 2:
            for v in x:
                ed(v, depth + 1)
    def data_args(args):
        # the primary data object, and the second positional argument when it is a collection of the same kind (two-collection calls);
        # option-like arguments (column lists, bin edges, weights) are left alone
        args = list(args)
        out = args[:1]
        if len(args) >= 2 and type(args[1]) is type(args[0]):
            out.append(args[1])
        return out
    # two-stage specifications (object construction + method): the object is kept and only the method's arguments are edited
    for a in data_args(built[3] if len(built) == 5 else built[0]):
        ed(a)
    return changed[0]


def carry_data_args(old, new):
    """new argument set (fresh axes, option dicts, ...) in which the data arguments are the *objects* of the old one"""
    new = list(new)
    k = 3 if len(new) == 5 else 0
    a_old, a_new = list(old[k]), list(new[k])
    n = 2 if len(a_old) >= 2 and type(a_old[1]) is type(a_old[0]) else 1
    a_new[:n] = a_old[:n]
    new[k] = tuple(a_new)
    return tuple(new)


def run_spec(ctx, name, fault=None, record_args=True, built=None, holder=None):
    """Returns canonical value (JSON).  Argument purity is monitored here.
    name "<spec>@edited": the arguments are built, edited in place (edit_in_place) and then used for the call.
    built: argument objects to use instead of freshly built ones (the same objects as in an earlier call)."""
    import numpy as np
    from vmon import canon, specs
    from vmon.lines import Failpoint, InjectedFault
    base_name, _, variant = name.partition("@")
    s = specs.SPECS[base_name]
    if built is None:
        built = s.build()
        if variant == "edited":
            edit_in_place(built)
    args, kwargs = built[0], built[1]
    method, margs, mkwargs = (built[2], built[3], built[4]) if len(built) == 5 else (None, (), {})
    watched_args = tuple(args) + tuple(margs)
    watched_kwargs = dict(kwargs, **{f"method:{k}": v for k, v in mkwargs.items()})
    before = canon.fp_args(watched_args, watched_kwargs) if record_args else None
    fn = s.target()
    if s.np_seed is not None:
        np.random.seed(s.np_seed)

    def invoke():
        if holder is not None and "obj" in holder and method is not None:
            return ctx.call(getattr(holder["obj"], method), *margs, **mkwargs)    # the object constructed by the earlier call is used again
        out0 = ctx.call(fn, *args, **kwargs)
        if method is None or not out0.ok:
            return out0
        if holder is not None:
            holder["obj"] = out0.value
        return ctx.call(getattr(out0.value, method), *margs, **mkwargs)      # second stage: method of the constructed object
    injected = False
    if fault:
        fp = Failpoint(fault)
        try:
            with fp:
                out = invoke()
        except InjectedFault:
            out = None
        # the fault counts as injected whenever it fired - even if pyrepseq swallowed it (bare except) and
        # surfaced something else, or carried on: such a call was disturbed and its value is not compared.
        injected = fp.fired_at is not None or out is None or (not out.ok and isinstance(out.exc, InjectedFault))
    else:
        out = invoke()
    if injected:
        value = "abandoned"
    elif out.ok:
        try:
            value = s.post(out.value)
        except Exception as e:
            value = f"post-raised:{type(e).__name__}:{str(e)[:80]}"
    else:
        value = f"raised:{type(out.exc).__name__}"
    if record_args:
        after = canon.fp_args(watched_args, watched_kwargs)
        ctx.count("argument_fingerprints_compared", len(after))
        if after != before:
            import inspect
            which = [i for i, (a, b) in enumerate(zip(before, after)) if a != b]
            names = []
            for i in which:
                names.append(f"arg{i}" if i < len(watched_args) else str(before[i][0]))
            ctx.violation(f"argument-mutated:{s.func}:{','.join(names)}" + (":after-fault" if injected else ""),
                          f"{s.func} modified the argument(s) {names} it was given (spec {name})", after, before)
    if s.fig:
        _close()
    return json.loads(json.dumps(value, default=repr)), injected


_STATE = {"functions": None}


def _functions():
    """every function / method defined in pyrepseq modules"""
    import inspect
    import pyrepseq
    if _STATE["functions"] is None:
        out = {}
        for mname, mod in list(sys.modules.items()):
            if not (mname == "pyrepseq" or mname.startswith("pyrepseq.")) or mod is None:
                continue
            for k, v in list(vars(mod).items()):
                if inspect.isfunction(v) and (v.__module__ or "").startswith("pyrepseq"):
                    out[f"{v.__module__}:{v.__qualname__}"] = v
                elif inspect.isclass(v) and (v.__module__ or "").startswith("pyrepseq"):
                    for kk, vv in list(vars(v).items()):
                        f = vv.__func__ if isinstance(vv, (staticmethod, classmethod)) else vv
                        if inspect.isfunction(f):
                            out[f"{f.__module__}:{f.__qualname__}"] = f
        _STATE["functions"] = out
    return _STATE["functions"]


def defaults_snapshot():
    from vmon import canon
    snap = {}
    for name, f in _functions().items():
        d = getattr(f, "__defaults__", None)
        kd = getattr(f, "__kwdefaults__", None)
        if d or kd:
            snap[name] = canon.fingerprint([d, kd])
    return snap


def module_snapshot():
    from vmon import canon
    snap = {}
    for mname, mod in list(sys.modules.items()):
        if not (mname == "pyrepseq" or mname.startswith("pyrepseq.")) or mod is None:
            continue
        for k, v in list(vars(mod).items()):
            if k.startswith("__") or k == "_cal_params":
                continue
            if isinstance(v, (str, int, float, tuple, list, dict, set, frozenset)):
                snap[f"{mname}:{k}"] = canon.fingerprint(v)
    return snap


def _changed_param(fname):
    f = _functions()[fname]
    import inspect
    try:
        sig = inspect.signature(f)
        return [p.name for p in sig.parameters.values() if isinstance(p.default, (dict, list, set))]
    except Exception:
        return []


def _run_history(ctx, steps):
    from vmon import specs
    ref = fresh()
    base_def = defaults_snapshot()
    base_mod = module_snapshot()
    prev = []
    for st in steps:
        name = st["spec"]
        s = specs.SPECS[name]
        if st.get("edit"):
            # first call with freshly built arguments; then the caller edits those very objects in place and calls again
            built = s.build()
            holder = {}
            value, injected = run_spec(ctx, name, built=built, holder=holder)
            if edit_in_place(built):
                # same data objects; everything else (axes, option dicts) as a caller would pass it to a new call
                v2, _ = run_spec(ctx, name, built=carry_data_args(built, s.build()), holder=holder)
                ctx.count("calls_with_same_objects_edited_in_place")
                if v2 != ref[name + "@edited"]:
                    ctx.violation(f"history-dependent:{s.func}:same-objects-edited",
                                  f"spec {name}: after the caller edited the argument objects in place, the second call with the same objects differs from a "
                                  "first call on equal content in a fresh interpreter", v2, ref[name + "@edited"], {"history": prev})
        else:
            value, injected = run_spec(ctx, name, fault=st.get("fault"))
        ctx.count(f"spec:{name}")
        if injected:
            ctx.count("injected_faults")
        else:
            ctx.count("calls_checked_against_fresh")
            if isinstance(value, str) and value.startswith("raised:"):
                ctx.count("raising_calls_checked")
            if s.np_seed is not None:
                ctx.count("seeded_calls_checked")
            if s.fig:
                ctx.count("figure_calls_checked")
            if value != ref[name]:
                ctx.violation(f"history-dependent:{s.func}", f"spec {name}: result after the history {prev[-6:]} differs from the result of the same call alone in a fresh interpreter",
                              value, ref[name], {"history": prev})
        # default-argument / module-state monitor
        now_def = defaults_snapshot()
        ctx.count("defaults_fingerprints_compared", len(now_def))
        if now_def != base_def:
            for fname in now_def:
                if now_def[fname] != base_def.get(fname):
                    params = _changed_param(fname)
                    ctx.count("default_arguments_changed")
                    differs = []
                    for pn, ps in specs.SPECS.items():
                        if pn not in ref:
                            continue
                        if ps.func.replace(":", ".").endswith(fname.split(":")[1]) or fname.split(":")[1] == ps.func.split(":")[1]:
                            v, inj = run_spec(ctx, pn, record_args=False)
                            if v != ref[pn]:
                                differs.append(pn)
                    if differs:
                        ctx.violation(f"default-argument-mutated:{fname}:{','.join(params)}",
                                      f"{fname} altered its own default argument(s) {params} during spec {name}; afterwards {differs} no longer return their fresh-interpreter value",
                                      {"probe_specs_differing": differs}, "defaults untouched")
                    else:
                        ctx.count("benign_default_changes")
            base_def = now_def
        now_mod = module_snapshot()
        if now_mod != base_mod:
            for k in now_mod:
                if now_mod[k] != base_mod.get(k):
                    ctx.count(f"module_state_changed:{k}")
            base_mod = now_mod
        prev.append(name + (f"!fault{st['fault']}" if st.get("fault") else ""))


def k_history(ctx, steps):
    """Run the history in a child forked from this (pristine: no pyrepseq call made yet) interpreter."""
    from vmon import core
    ctx.count("histories")
    names = [s["spec"] for s in steps]
    ctx.nontriv(["H", names, [s.get("fault") for s in steps]])
    for a, b in zip(names, names[1:]):
        ctx.nontriv(["pair", a, b])
        ctx.distinct("adjacent_ordered_spec_pairs", [a, b])
    for a in names:
        ctx.distinct("specifications_executed", a)
    ctx.sample("history", {"steps": steps[:10], "n_steps": len(steps)})
    fd, path = tempfile.mkstemp(prefix="vmon-c20-", suffix=".json")
    os.close(fd)
    pid = os.fork()
    if pid == 0:
        code = 0
        try:
            sub = core.Ctx(ctx.pid, ctx.tier, ctx.seed)
            sub.case = ctx.case
            _run_history(sub, steps)
            d = sub.dump()
            d["anchors_seen"] = sorted(core.COVERAGE.seen) if core.COVERAGE else []
            with open(path, "w") as f:
                json.dump(d, f, default=repr)
        except BaseException:
            import traceback
            with open(path, "w") as f:
                json.dump({"child_error": traceback.format_exc()[-2000:]}, f)
            code = 3
        finally:
            os._exit(code)
    t0 = time.time()
    while True:
        done, status = os.waitpid(pid, os.WNOHANG)
        if done:
            break
        if time.time() - t0 > 600:
            os.kill(pid, 9)
            os.waitpid(pid, 0)
            raise RuntimeError("history child exceeded its watchdog")
        time.sleep(0.01)
    try:
        with open(path) as f:
            d = json.load(f)
    finally:
        os.remove(path)
    if "child_error" in d:
        raise RuntimeError("history child failed: " + d["child_error"])
    ctx.counters.update(d["counters"])
    ctx.calls.update(d["calls"])
    ctx.returned += d["returned"]
    ctx.raised += d["raised"]
    ctx.violations.extend(d["violations"][: max(0, ctx.MAX_VIOLATIONS - len(ctx.violations))])
    if core.COVERAGE:
        core.COVERAGE.seen.update(d.get("anchors_seen", []))


def k_coverage(ctx):
    """bookkeeping only: how many specifications the catalogue has"""
    from vmon import specs
    ctx.count("specs_covered", len(specs.SPECS))
    ctx.nontriv(["catalogue", len(specs.SPECS)])
    ctx.sample("catalogue", {"specifications": list(specs.SPECS)[:20], "total": len(specs.SPECS)})


KINDS = {"history": k_history, "coverage": k_coverage}


def generate(tier, seed):
    from vmon import specs
    rng = random.Random(20000 + seed)
    thorough = tier == "thorough"
    names = _names(tier)
    figs = [n for n in names if specs.SPECS[n].fig]
    yield "coverage", {}, True
    # each plotting default call directly followed by every plotting spec (default-dict leaks) and a few others
    for f in figs:
        steps = []
        for g in figs:
            steps += [{"spec": f}, {"spec": g}]
        yield "history", {"steps": steps}, True
    # sibling histories: all specifications of one function, forwards then backwards (incompletely keyed caches, option leaks)
    by_func = {}
    for n in names:
        by_func.setdefault(specs.SPECS[n].func, []).append(n)
    for func, group in sorted(by_func.items()):
        if len(group) >= 2:
            yield "history", {"steps": [{"spec": n} for n in group] + [{"spec": n} for n in reversed(group)]}, True
    # the caller re-uses its argument objects after editing them in place (caches keyed by object identity)
    ed = _editable(tier)
    for i in range(0, len(ed), 10):
        yield "history", {"steps": [{"spec": n, "edit": True} for n in ed[i:i + 10]]}, True
    # every spec at least once, in shuffled blocks, each block twice in different orders
    order = list(names)
    rng.shuffle(order)
    for i in range(0, len(order), 12):
        block = order[i:i + 12]
        yield "history", {"steps": [{"spec": n} for n in block] + [{"spec": n} for n in reversed(block)]}, True
    # failpoint runs: call abandoned at a random line event inside pyrepseq, then continue
    for i in range(60 * TS if thorough else 10):
        block = rng.sample(names, 8)
        steps = []
        for n in block:
            steps.append({"spec": n, "fault": rng.randint(1, 60)})
            steps.append({"spec": n})
        steps += [{"spec": n} for n in rng.sample(names, 6)]
        yield "history", {"steps": steps}, i < 6
    if thorough:
        # every ordered pair adjacent at least once: a de-Bruijn-like walk cut into histories of 40 calls
        pairs = [(a, b) for a in names for b in names]
        rng.shuffle(pairs)
        cur = []
        for a, b in pairs:
            if cur and cur[-1] == a:
                cur.append(b)
            else:
                cur += [a, b]
            if len(cur) >= 40:
                yield "history", {"steps": [{"spec": n} for n in cur]}, True
                cur = []
        if cur:
            yield "history", {"steps": [{"spec": n} for n in cur]}, True
    for i in range(400 * TS if thorough else 24):
        L = rng.randint(10, 40 if thorough else 24)
        steps = [{"spec": rng.choice(names)} for _ in range(L)]
        for st in steps:
            if rng.random() < 0.08:
                st["fault"] = rng.randint(1, 200)
        yield "history", {"steps": steps}, i < 8


if __name__ == "__main__":
    # fresh-interpreter worker:  python -m checks.c20 fresh <spec>
    #                            python -m checks.c20 template <out.json> <spec>...
    sys.path.insert(0, HERE)
    os.environ.setdefault("PYTHONHASHSEED", "0")
    from vmon import core
    core.setup_paths()
    if sys.argv[1] == "fresh":
        ctx = core.Ctx(PID, "fresh", 0)
        value, _ = run_spec(ctx, sys.argv[2], record_args=False)
        print("FRESH " + json.dumps(value, default=repr))
    else:
        out_path, names = sys.argv[2], sys.argv[3:]
        import matplotlib.pyplot  # noqa  (imported by pyrepseq anyway)
        tmp = {}
        live = {}
        results = {}

        def reap(block):
            for pid_, (n, pth) in list(live.items()):
                done, _st = os.waitpid(pid_, 0 if block else os.WNOHANG)
                if done:
                    try:
                        with open(pth) as f:
                            results[n] = json.load(f)
                    except Exception as e:
                        results[n] = {"error": f"template child failed: {e}"}
                    finally:
                        if os.path.exists(pth):
                            os.remove(pth)
                    del live[pid_]
        for n in names:
            while len(live) >= 12:
                reap(False)
                time.sleep(0.005)
            fd, pth = tempfile.mkstemp(prefix="vmon-c20-v-", suffix=".json")
            os.close(fd)
            pid_ = os.fork()
            if pid_ == 0:
                code = 0
                try:
                    ctx = core.Ctx(PID, "fresh", 0)
                    value, _ = run_spec(ctx, n, record_args=False)
                    with open(pth, "w") as f:
                        json.dump(value, f, default=repr)
                except BaseException as e:
                    with open(pth, "w") as f:
                        json.dump({"error": repr(e)[:500]}, f)
                    code = 3
                finally:
                    os._exit(code)
            live[pid_] = (n, pth)
        while live:
            reap(True)
        with open(out_path, "w") as f:
            json.dump(results, f)
