"""C14 - distance-filtered search keeps exactly the pairs inside both radii; TCRdist neighbours; V tables."""
import collections
import os
import random

from vmon import core
from vmon import dists as D
from vmon import gens as G
from vmon.gens import THOROUGH_SCALE as TS
from vmon import oracles as O
from vmon import search as S

PID = "C14"
RULE = ("custom cases: every engine (nearest_neighbor, symdel, hash_based, kdtree, and the two-collection forms "
        "symdel(seqs2=), SymdelDB.lookup, LookupDB.lookup) is called with a registered custom distance (2*lev, 0.5*lev, "
        "3*lev, |len a-len b|, composition L1, real-valued weighted Hamming, lev+0.25*lendiff), max_edits and a radius "
        "that is infinite, or on / just below / just above an attained value; oracle: pair reported iff lev<=max_edits and "
        "custom<=max_custom_distance, value = custom. tcrdist cases: nearest_neighbor_tcrdist on random TCR tables over the "
        "bundled V alleles x chain x edit_on_trimmed x max_edits x max_tcrdist (incl. radii with no candidate at all) against "
        "an all-ordered-pairs oracle using the recorded stand-in for pwseqdist; the stand-in's call log is checked too. "
        "table case: both CSV tables symmetric, zero diagonal, index == columns. "
        "distinct_nontrivial = distinct cases whose oracle result is non-empty.")
ASSUMPTIONS = ["pwseqdist is absent: a vendored recording stand-in (vmon/stubs/pwseqdist) supplies the CDR3 TCRdist; what is decided is pyrepseq's composition around it",
               "custom distances are symmetric with d(x,x)=0; the real-valued Hamming one (infinite for unequal lengths) is only used with a finite radius",
               "hash_based / LookupDB only with k<=2 on short strings"]
EXHAUSTIVE = {"quick": ["7 distances x 4 engines x radii {inf, on, below, above} on fixed witnesses", "V tables read completely"],
              "thorough": ["7 distances x 4 engines x radii {inf, every attained value on/below/above} on fixed witnesses", "V tables read completely"]}
REQUIRE = {"custom_big_cases": 1, "custom_self_cases": 60, "custom_cross_cases": 20, "radius_finite": 40, "radius_inf": 13,
           "pairs_lev_ok_custom_too_far": 20, "pairs_custom_ok_lev_too_far": 20, "tcrdist_cases": 16,
           "tcrdist_empty_results": 3, "tcrdist_no_candidates": 1, "tcrdist_chain_both": 5, "stub_calls_checked": 10,
           "vtable_cells_checked": 10000, "custom_history_cases": 5, "lookups_after_distance_change": 11}
SHARDS = {"quick": 6, "thorough": 16}


def self_test():
    O.self_test()


def _maxcd(x):
    return float("inf") if x in (None, "inf") else float(x)


def _exp_self(seqs, k, f, maxcd):
    out = collections.Counter()
    for (i, j, d) in O.neigh_self(seqs, k):
        v = f(seqs[i], seqs[j])
        if v <= maxcd:
            out[(i, j, O.num(v))] += 1
    return out


def _exp_cross(queries, refs, k, f, maxcd):
    out = collections.Counter()
    for (q, r, d) in O.neigh_cross(queries, refs, k):
        v = f(queries[q], refs[r])
        if v <= maxcd:
            out[(q, r, O.num(v))] += 1
    return out


def _class_counts(ctx, seqs, others, k, f, maxcd):
    lev_ok_far = cust_ok_far = False
    n = 0
    for a in seqs[:40]:
        for b in others[:40]:
            if a is b:
                continue
            n += 1
            l, v = O.lev(a, b), f(a, b)
            if l <= k and v > maxcd:
                lev_ok_far = True
            if l > k and v <= maxcd:
                cust_ok_far = True
    if lev_ok_far:
        ctx.count("pairs_lev_ok_custom_too_far")
    if cust_ok_far:
        ctx.count("pairs_custom_ok_lev_too_far")
    ctx.count("radius_inf" if maxcd == float("inf") else "radius_finite")


def k_custom_self(ctx, seqs, k, dist, maxcd, engines):
    f = D.DISTS[dist]
    mc = _maxcd(maxcd)
    exp = _exp_self(seqs, k, f, mc)
    ctx.count("custom_self_cases")
    _class_counts(ctx, seqs, seqs, k, f, mc)
    if exp:
        ctx.nontriv([seqs, k, dist, str(maxcd), engines])
    ctx.sample(f"custom_self:{dist}", {"seqs": seqs[:8], "n": len(seqs), "k": k, "dist": dist, "maxcd": str(maxcd), "engines": engines})
    rad = "inf" if mc == float("inf") else "finite"
    for name in engines:
        out = ctx.call(S.engine(name), list(seqs), max_edits=k, custom_distance=f, max_custom_distance=mc)
        ctx.count(f"{name}_calls")
        S.expect_triplets(ctx, out, exp, name, f"custom-self-radius-{rad}", extra={"dist": dist, "maxcd": str(maxcd)})


def k_custom_big(ctx, n, dist, maxcd, np_seed):
    """tens of thousands of sequences (positions beyond 2^15 / pair codes beyond 2^31), max_edits = 1, default search with a custom distance"""
    import random as _r
    rng = _r.Random(np_seed)
    seqs = G.repertoire(rng, n, families=max(1, n // 3))
    f = D.DISTS[dist]
    mc = _maxcd(maxcd)
    ctx.count("custom_big_cases")
    ctx.nontriv(["cbig", n, dist, str(maxcd), np_seed])
    ctx.sample("custom_big", {"n": n, "dist": dist, "maxcd": str(maxcd)})
    exp = collections.Counter()
    for (i, j, d) in O.neigh_self_k1_big(seqs):
        v = f(seqs[i], seqs[j])
        if v <= mc:
            exp[(i, j, O.num(v))] += 1
    for name in ("symdel", "nearest_neighbor"):
        out = ctx.call(S.engine(name), list(seqs), max_edits=1, custom_distance=f, max_custom_distance=mc)
        S.expect_triplets(ctx, out, exp, name, "custom-self-big", extra={"dist": dist, "maxcd": str(maxcd), "n": n})


def k_custom_cross(ctx, refs, queries, k, dist, maxcd):
    import pyrepseq.nn as nn
    f = D.DISTS[dist]
    mc = _maxcd(maxcd)
    exp = _exp_cross(queries, refs, k, f, mc)
    ctx.count("custom_cross_cases")
    _class_counts(ctx, queries, refs, k, f, mc)
    if exp:
        ctx.nontriv(["X", refs, queries, k, dist, str(maxcd)])
    ctx.sample("custom_cross", {"refs": refs[:8], "queries": queries[:8], "k": k, "dist": dist, "maxcd": str(maxcd)})
    rad = "inf" if mc == float("inf") else "finite"
    out = ctx.call(nn.symdel, list(refs), max_edits=k, custom_distance=f, max_custom_distance=mc, seqs2=list(queries))
    S.expect_triplets(ctx, out, exp, "symdel", f"custom-cross-radius-{rad}")
    out = ctx.call(nn.nearest_neighbor, list(refs), max_edits=k, custom_distance=f, max_custom_distance=mc, seqs2=list(queries))
    S.expect_triplets(ctx, out, exp, "nearest_neighbor", f"custom-cross-radius-{rad}")
    db = ctx.call(nn.SymdelDB, list(refs), k)
    if db.ok:
        out = ctx.call(db.value.lookup, list(queries), custom_distance=f, max_custom_distance=mc)
        S.expect_triplets(ctx, out, exp, "SymdelDB.lookup", f"custom-cross-radius-{rad}")
    if k <= 2 and all(len(q) <= 6 for q in queries) and all(c in G.AA for q in queries for c in q):
        ldb = ctx.call(nn.LookupDB, list(refs))
        if ldb.ok:
            out = ctx.call(ldb.value.lookup, list(queries), max_edits=k, custom_distance=f, max_custom_distance=mc)
            S.expect_triplets(ctx, out, exp, "LookupDB.lookup", f"custom-cross-radius-{rad}")


def k_custom_history(ctx, refs, k, steps):
    """one SymdelDB / LookupDB build, then lookups whose custom distance (or none) changes from step to step"""
    import pyrepseq.nn as nn
    db = ctx.call(nn.SymdelDB, list(refs), k)
    ldb = ctx.call(nn.LookupDB, list(refs))
    if not db.ok or not ldb.ok:
        ctx.violation("DB:build:raised", "database construction raised", [db.describe(), ldb.describe()], None)
        return
    ctx.count("custom_history_cases")
    ctx.nontriv(["CH", refs, k, steps])
    ctx.sample("custom_history", {"refs": refs[:8], "k": k, "steps": steps[:4]})
    prev = None
    for st in steps:
        q, dist, mc = st["q"], st.get("dist"), _maxcd(st.get("maxcd"))
        if dist is None:
            exp = O.neigh_cross(q, refs, k)
            out = ctx.call(db.value.lookup, list(q))
            tag = "default"
        else:
            f = D.DISTS[dist]
            exp = _exp_cross(q, refs, k, f, mc)
            out = ctx.call(db.value.lookup, list(q), custom_distance=f, max_custom_distance=mc)
            tag = "custom"
        if prev is not None and prev != dist:
            ctx.count("lookups_after_distance_change")
        S.expect_triplets(ctx, out, exp, "SymdelDB.lookup", f"cross-history-{tag}-after-{'other' if prev != dist else 'same'}-distance",
                          extra={"dist": dist, "previous": prev})
        if k <= 2 and all(len(x) <= 6 for x in q):
            if dist is None:
                out = ctx.call(ldb.value.lookup, list(q), max_edits=k)
            else:
                out = ctx.call(ldb.value.lookup, list(q), max_edits=k, custom_distance=D.DISTS[dist], max_custom_distance=mc)
            S.expect_triplets(ctx, out, exp, "LookupDB.lookup", f"cross-history-{tag}")
        prev = dist


def _vtable(chain):
    import pandas as pd
    return pd.read_csv(os.path.join(core.REPO, "pyrepseq", "data", f"vdists_{chain}.csv"), index_col=0)


_VT = {}


def _vt(chain):
    if chain not in _VT:
        t = _vtable(chain)
        _VT[chain] = {(a, b): int(t.loc[a, b]) for a in t.index for b in t.columns}
    return _VT[chain]


def k_tcrdist(ctx, rows, chain, max_edits, edit_on_trimmed, max_tcrdist, tcrdist_kwargs=None, index=None):
    import numpy as np
    import pandas as pd
    import pwseqdist
    import pyrepseq.nn as nn
    df = pd.DataFrame(rows, columns=["CDR3A", "TRAV", "CDR3B", "TRBV"])
    if index == "shifted":
        df.index = range(10, 10 + len(df))
    elif index == "string":
        df.index = [f"t{i}" for i in range(len(df))]
    kw = dict(use_numba=True, fixed_gappos=False, ntrim=3, ctrim=2, dist_weight=3, gap_penalty=12)
    kw.update(tcrdist_kwargs or {})
    search = "A" if chain == "alpha" else "B"
    chains = ["B", "A"] if chain == "both" else [search]
    cdr3 = {"A": [r[0] for r in rows], "B": [r[2] for r in rows]}
    vg = {"A": [r[1] for r in rows], "B": [r[3] for r in rows]}
    if edit_on_trimmed:
        key = [s[kw["ntrim"]:-kw["ctrim"]] for s in cdr3[search]]
    else:
        key = list(cdr3[search])
    cand = O.neigh_self(key, max_edits)
    exp = collections.Counter()
    for (i, j, d) in cand:
        tot = 0
        for c in chains:
            tot += _vt("alpha" if c == "A" else "beta")[(vg[c][i], vg[c][j])]
            tot += pwseqdist.pair_distance(cdr3[c][i], cdr3[c][j], **{k: v for k, v in kw.items() if k != "use_numba"})
        if tot <= max_tcrdist:
            exp[(i, j, tot)] += 1
    ctx.count("tcrdist_cases")
    if chain == "both":
        ctx.count("tcrdist_chain_both")
    if not cand:
        ctx.count("tcrdist_no_candidates")
    if not exp:
        ctx.count("tcrdist_empty_results")
    else:
        ctx.nontriv(["T", rows, chain, max_edits, edit_on_trimmed, max_tcrdist, tcrdist_kwargs])
    ctx.sample(f"tcrdist:{chain}", {"rows": rows[:5], "n": len(rows), "chain": chain, "max_edits": max_edits,
                                    "edit_on_trimmed": edit_on_trimmed, "max_tcrdist": max_tcrdist, "expected": sum(exp.values())})
    del pwseqdist.CALLS[:]
    passed = dict(tcrdist_kwargs) if tcrdist_kwargs else {}
    passed_before = dict(passed)
    out = ctx.call(nn.nearest_neighbor_tcrdist, df, chain=chain, max_edits=max_edits, edit_on_trimmed=edit_on_trimmed,
                   max_tcrdist=max_tcrdist, tcrdist_kwargs=passed)
    cls = "no-candidates" if not cand else ("empty-after-radius" if not exp else "hits")
    if not out.ok:
        ctx.violation(f"nearest_neighbor_tcrdist:{cls}:raised:{type(out.exc).__name__}", "nearest_neighbor_tcrdist raised",
                      out.describe(), sorted(exp.elements())[:20])
        return
    try:
        arr = np.asarray(out.value)
        got = O.canon_triplets(arr.reshape(-1, 3).tolist()) if arr.size else collections.Counter()
    except Exception as e:
        ctx.violation(f"nearest_neighbor_tcrdist:{cls}:malformed", f"result is not an (n,3) array: {e}", out.value, None)
        return
    d = O.diff_triplets(got, exp)
    if d is not None:
        ctx.violation(f"nearest_neighbor_tcrdist:{cls}:{chain}:{d[0]}", f"TCRdist neighbours differ from the all-pairs oracle: {d}",
                      sorted(got.elements())[:30], sorted(exp.elements())[:30])
    if passed != passed_before:
        ctx.count("tcrdist_kwargs_dict_modified")          # purity of option dictionaries is C20's property: observation only here
    # what pyrepseq handed to the dependency: an observation (how the dependency is consulted is an implementation choice;
    # the verdict is the comparison of the returned TCRdist values with the all-pairs oracle above)
    if cand:
        ctx.count("stub_calls_checked")
        ctx.distinct("dependency_call_patterns", [len(pwseqdist.CALLS), [c["n_pairs"] == sum(cand.values()) for c in pwseqdist.CALLS]])


def k_vtables(ctx):
    import numpy as np
    import tidytcells as tt
    for chain in ("alpha", "beta"):
        t = _vtable(chain)
        ctx.nontriv(["V", chain])
        ctx.count("vtable_cells_checked", int(t.size))
        ctx.sample(f"vtable:{chain}", {"shape": list(t.shape), "first": list(t.index[:3])})
        if list(t.index) != list(t.columns):
            ctx.violation(f"vdists_{chain}:index-ne-columns", "row labels differ from column labels", list(t.index)[:5], list(t.columns)[:5])
            continue
        v = t.values
        if v.shape[0] != v.shape[1] or not np.array_equal(v, v.T):
            bad = np.argwhere(v != v.T)[:5].tolist() if v.shape[0] == v.shape[1] else "not square"
            ctx.violation(f"vdists_{chain}:asymmetric", f"V distance table is not symmetric at {bad}", None, None)
        if not (np.diag(v) == 0).all():
            ctx.violation(f"vdists_{chain}:diagonal", "V distance table has a non-zero diagonal entry",
                          [t.index[i] for i in np.nonzero(np.diag(v))[0][:5]], 0)
        if (v < 0).any() or np.isnan(v.astype(float)).any():
            ctx.violation(f"vdists_{chain}:negative-or-missing", "V distance table has negative or missing entries", None, None)
        if len(set(t.index)) != len(t.index):
            ctx.violation(f"vdists_{chain}:duplicate-labels", "duplicate allele labels", None, None)


KINDS = {"custom_big": k_custom_big, "custom_self": k_custom_self, "custom_cross": k_custom_cross, "custom_history": k_custom_history, "tcrdist": k_tcrdist, "vtables": k_vtables}
ENG = ["nearest_neighbor", "symdel", "hash_based", "kdtree"]
WIT = ["CAAA", "CADA", "CAAAD", "CAAA", "CDDD", "CAAK", "CAA", "CDDA", "CADAA", "CWWW", "CA"]


def _radii(dist, seqs, seqs2=None, many=False):
    vals = D.attained_values(dist, seqs, seqs2)
    vals = [v for v in vals if v > 0]
    picks = []
    if vals:
        cands = vals if many else [vals[0], vals[len(vals) // 2]]
        for v in cands[:6]:
            picks += [v, v - 0.25 if v - 0.25 >= 0 else 0.0, v + 0.25]
    out = []
    for p in [0.0] + picks:
        if p not in out:
            out.append(p)
    return out


def _tcr_rows(rng, n, alleles_a, alleles_b, short=False):
    nfam = max(1, n // 4)
    a = G.repertoire(rng, n, families=nfam, lo=4 if not short else 1, hi=10 if not short else 4)
    b = G.repertoire(rng, n, families=nfam, lo=4 if not short else 1, hi=10 if not short else 4)
    va = [rng.choice(alleles_a) for _ in range(4)]
    vb = [rng.choice(alleles_b) for _ in range(4)]
    return [[a[i], rng.choice(va), b[i], rng.choice(vb)] for i in range(n)]


def generate(tier, seed):
    rng = random.Random(14000 + seed)
    thorough = tier == "thorough"
    yield "vtables", {}, True
    for dist in D.DISTS:
        radii = (["inf"] if dist != "whamming" else []) + _radii(dist, WIT, many=thorough)
        for k in (1, 2):
            for r in radii:
                yield "custom_self", {"seqs": WIT, "k": k, "dist": dist, "maxcd": r, "engines": ENG}, True
        for r in radii[:4]:
            yield "custom_cross", {"refs": WIT, "queries": WIT[3:] + ["CAKA", "CDD"], "k": 1, "dist": dist, "maxcd": r}, True
    # D5 witness class: scaled distance, infinite radius; small custom value beyond max_edits
    yield "custom_self", {"seqs": ["CAAA", "CADA", "CAAK", "CDDD"], "k": 1, "dist": "lev3", "maxcd": "inf", "engines": ENG}, True
    # one residue repeated 255 / 256 times (composition counts around 2^8), all engines
    yield "custom_self", {"seqs": ["G" * 256, "G" * 255, "C" + "G" * 255, "G" * 255 + "A", "G" * 300, "G" * 299], "k": 1, "dist": "lev2", "maxcd": "inf",
                          "engines": ["symdel", "kdtree", "hash_based"]}, True
    yield "custom_big", {"n": 3000 if not thorough else 47500, "dist": "lev2", "maxcd": 2.0, "np_seed": 14400 + seed}, True
    yield "custom_self", {"seqs": ["CAAA", "CADD", "CAAK", "CDDD"], "k": 1, "dist": "halflev", "maxcd": 1.0, "engines": ENG}, True
    yield "custom_self", {"seqs": ["CAAA", "CADD", "CAAK", "CDDD"], "k": 1, "dist": "lendiff", "maxcd": 0.0, "engines": ENG}, True
    pools = [G.universe("AC", 5), G.universe("ACD", 4), G.universe("AWY", 3)]
    names = list(D.DISTS)
    n_rand = 5000 * TS if thorough else 260
    for i in range(n_rand):
        pool = pools[i % len(pools)]
        dist = names[i % len(names)]
        seqs = G.small_multiset(rng, pool, 2, 30)
        k = rng.choice([1, 1, 2, 3])
        eng = list(ENG)
        if k > 2 or (k == 2 and max(len(s) for s in seqs) > 5):
            eng.remove("hash_based")
        radii = (["inf"] if dist != "whamming" else []) + _radii(dist, seqs)
        r = rng.choice(radii)
        if i % 4 == 0:
            q = G.small_multiset(rng, pool, 1, 12)
            yield "custom_cross", {"refs": seqs, "queries": q, "k": min(k, 2), "dist": dist, "maxcd": r}, i < 60
        else:
            yield "custom_self", {"seqs": seqs, "k": k, "dist": dist, "maxcd": r, "engines": eng}, i < 60
    n_rep = 200 * TS if thorough else 16
    for i in range(n_rep):
        seqs = G.repertoire(rng, rng.randint(20, 80))
        dist = names[i % len(names)]
        k = rng.choice([1, 2])
        radii = (["inf"] if dist != "whamming" else []) + _radii(dist, seqs[:25])
        yield "custom_self", {"seqs": seqs, "k": k, "dist": dist, "maxcd": rng.choice(radii),
                              "engines": ENG if k == 1 else ["nearest_neighbor", "symdel", "kdtree"]}, i < 4
    # one database object, distance function changing between lookups
    for i in range(300 * TS if thorough else 24):
        pool = pools[i % len(pools)]
        refs = G.small_multiset(rng, pool, 3, 25)
        qs = G.small_multiset(rng, pool, 2, 8)
        steps = []
        for j in range(rng.randint(3, 7)):
            dist = rng.choice([None, "lev2", "halflev", "lendiff", "levplus", "compl1"])
            q = qs if rng.random() < 0.7 else G.small_multiset(rng, pool, 1, 8)
            steps.append({"q": q, "dist": dist, "maxcd": rng.choice(["inf", 1.0, 2.0, 0.5]) if dist else None})
        yield "custom_history", {"refs": refs, "k": rng.choice([1, 2]), "steps": steps}, i < 10
    # TCRdist
    al_a = list(_vtable("alpha").index)
    al_b = list(_vtable("beta").index)
    # no candidate at all (D6 class)
    yield "tcrdist", {"rows": [["CAVRDSNYQLIW", al_a[0], "CASSLGQAYEQYF", al_b[0]], ["CAWWWWWWWWWWF", al_a[1], "CSARRRRRRRRRRRRF", al_b[1]]],
                      "chain": "beta", "max_edits": 1, "edit_on_trimmed": True, "max_tcrdist": 20}, True
    yield "tcrdist", {"rows": [["CAVRDSNYQLIW", al_a[0], "CASSLGQAYEQYF", al_b[0]]],
                      "chain": "both", "max_edits": 2, "edit_on_trimmed": False, "max_tcrdist": 50}, True
    n_t = 1500 * TS if thorough else 80
    for i in range(n_t):
        n = rng.randint(2, 30)
        rows = _tcr_rows(rng, n, al_a, al_b, short=(i % 9 == 0))
        chain = ["beta", "alpha", "both"][i % 3]
        p = {"rows": rows, "chain": chain, "max_edits": rng.choice([1, 2, 2, 3]), "edit_on_trimmed": bool(i % 2),
             "max_tcrdist": rng.choice([0, 6, 12, 20, 40, 90, 500]), "index": [None, "shifted", "string"][i % 3]}
        if i % 5 == 0:
            p["tcrdist_kwargs"] = rng.choice([{"ntrim": 2, "ctrim": 1}, {"dist_weight": 1, "gap_penalty": 4}, {"fixed_gappos": True}])
        yield "tcrdist", p, i < 30
