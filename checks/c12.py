"""C12 - one-edit neighbourhood generators and the set utilities on them are exact."""
import collections
import itertools
import random

from vmon import gens as G
from vmon.gens import THOROUGH_SCALE as TS

TS = TS * 6          # this check is cheap per case: the thorough tier explores six times the common random workload
from vmon import oracles as O

PID = "C12"
RULE = ("generator cases: levenshtein_neighbors / hamming_neighbors(x, alphabet[, variable_positions]) consumed as a Counter and compared "
        "with the naive edit set (all deletions, substitutions, insertions minus x) - every member exactly once, nothing else - and, on "
        "small alphabets, with brute force over every string using the DP oracle; next_nearest_neighbors for maxdistance 1..3 against "
        "brute force. utility cases: find_neighbor_pairs, find_neighbor_pairs_index, calculate_neighbor_numbers, isdist1, nndist_hamming "
        "(maxdist 1..4) against true distances on random reference sets. Exhaustive: every string up to a length bound over alphabets of "
        "1-4 letters. distinct_nontrivial = distinct (function, input) cases.")
ASSUMPTIONS = ["find_neighbor_pairs_index is given lists of unique sequences (its docstring); reference sets for nndist_hamming hold strings of the query's length or other lengths (ignored by Hamming)",
               "variable_positions are distinct positions"]
EXHAUSTIVE = {"quick": ["levenshtein_neighbors: all x len<=5 over alphabets A, AC, ACD and len<=4 over ACDW", "hamming_neighbors: all x len<=4 over AC, ACD"],
              "thorough": ["levenshtein_neighbors: all x len<=6 over A, AC, ACD, ACDW", "hamming_neighbors: all x len<=5 over A..ACDW",
                           "next_nearest_neighbors: all x len<=3 over AC for maxdistance 1..3"]}
REQUIRE = {"variable_positions_one_shot_iterables": 15, "lev1_strings": 400, "ham1_strings": 100, "strings_with_repeated_letters": 100, "empty_string_cases": 1, "brute_force_crosschecks": 50,
           "variable_positions_cases": 20, "nnn_cases": 20, "pairs_cases": 16, "pairs_container_steps": 64, "pairs_index_cases": 16, "neighbor_numbers_cases": 16,
           "isdist1_cases": 40, "nndist_cases": 30, "nndist_value_0": 2, "nndist_value_1": 5, "nndist_value_2": 5, "nndist_value_3": 3, "nndist_value_4": 2,
           "default_alphabet_cases": 10, "empty_reference_cases": 2}
SHARDS = {"quick": 4, "thorough": 16}


def self_test():
    O.self_test()
    # naive ball == brute force on a tiny universe (validates the naive reference itself)
    for x in O.all_strings("AC", 3):
        brute = {s for s in O.all_strings("AC", len(x) + 1) if O.lev(x, s) == 1}
        assert O.lev1_ball(x, "AC") == brute, x


def _cmp_counter(ctx, key, got_list, want_set, x, what):
    got = collections.Counter(got_list)
    dup = [s for s, c in got.items() if c > 1]
    missing = sorted(want_set - set(got))
    spurious = sorted(set(got) - want_set)
    if spurious:
        shape = "yields-x" if x in spurious else "spurious"
        ctx.violation(f"{key}:{shape}", f"{what}({x!r}) yields strings that are not at distance exactly 1: {spurious[:6]}", sorted(got)[:40], sorted(want_set)[:40])
    elif missing:
        ctx.violation(f"{key}:missing", f"{what}({x!r}) misses neighbours {missing[:6]}", sorted(got)[:40], sorted(want_set)[:40])
    elif dup:
        ctx.violation(f"{key}:duplicate", f"{what}({x!r}) yields {dup[:6]} more than once", {s: got[s] for s in dup[:6]}, "each exactly once")


def k_lev1(ctx, xs, alphabet, brute=False, default_alphabet=False):
    import pyrepseq as prs
    for x in xs:
        want = O.lev1_ball(x, alphabet)
        ctx.count("lev1_strings")
        if any(x[i] == x[i + 1] for i in range(len(x) - 1)):
            ctx.count("strings_with_repeated_letters")
        if x == "":
            ctx.count("empty_string_cases")
        if default_alphabet:
            ctx.count("default_alphabet_cases")
            out = ctx.call(lambda: list(prs.levenshtein_neighbors(x)))
        else:
            out = ctx.call(lambda: list(prs.levenshtein_neighbors(x, alphabet)))
        ctx.calls["pyrepseq.distance.levenshtein_neighbors"] += 1
        if not out.ok:
            ctx.violation("levenshtein_neighbors:raised", f"levenshtein_neighbors({x!r}) raised", out.describe(), None)
            continue
        _cmp_counter(ctx, "levenshtein_neighbors", out.value, want, x, "levenshtein_neighbors")
        if brute and len(x) <= 4:
            b = {s for s in O.all_strings(alphabet, len(x) + 1) if O.lev(x, s) == 1}
            ctx.count("brute_force_crosschecks")
            if b != set(out.value):
                ctx.violation("levenshtein_neighbors:vs-bruteforce", f"levenshtein_neighbors({x!r}) is not the set of strings with lev == 1",
                              sorted(out.value)[:40], sorted(b)[:40])
    ctx.nontriv(["lev1", alphabet, len(xs), xs[:3], xs[-1:]])
    ctx.sample(f"lev1:{len(alphabet)}", {"alphabet": alphabet, "n_strings": len(xs), "first": xs[:4]})


def k_ham1(ctx, xs, alphabet, positions=None, positions_kind="list"):
    import pyrepseq as prs
    for x in xs:
        pos = None
        if positions is not None:
            pos = [p for p in positions if p < len(x)]
            ctx.count("variable_positions_cases")
        want = O.ham1_ball(x, alphabet, pos)
        ctx.count("ham1_strings")
        if pos is None:
            out = ctx.call(lambda: list(prs.hamming_neighbors(x, alphabet)))
        else:
            # the positions as any iterable: list, tuple, one-shot iterator, generator, set, ndarray
            import numpy as np
            parg = {"list": lambda: list(pos), "tuple": lambda: tuple(pos), "iter": lambda: iter(list(pos)), "generator": lambda: (p for p in pos),
                    "set": lambda: set(pos), "ndarray": lambda: np.array(pos, dtype=int)}[positions_kind]()
            if positions_kind in ("iter", "generator"):
                ctx.count("variable_positions_one_shot_iterables")
            out = ctx.call(lambda: list(prs.hamming_neighbors(x, alphabet, variable_positions=parg)))
        ctx.calls["pyrepseq.distance.hamming_neighbors"] += 1
        if not out.ok:
            ctx.violation("hamming_neighbors:raised", f"hamming_neighbors({x!r}) raised", out.describe(), None)
            continue
        _cmp_counter(ctx, "hamming_neighbors" + (":positions" if pos is not None else ""), out.value, want, x, "hamming_neighbors")
    ctx.nontriv(["ham1", alphabet, positions, len(xs), xs[:3]])
    ctx.sample("ham1", {"alphabet": alphabet, "n_strings": len(xs), "positions": positions})


def k_nnn(ctx, x, alphabet, maxd, mode):
    import pyrepseq as prs
    if mode == "lev":
        nb = lambda y: prs.levenshtein_neighbors(y, alphabet)
        want = {s for s in O.all_strings(alphabet, len(x) + maxd) if 1 <= O.lev(x, s) <= maxd}
    else:
        nb = lambda y: prs.hamming_neighbors(y, alphabet)
        want = {"".join(t) for t in itertools.product(alphabet, repeat=len(x))}
        want = {s for s in want if 1 <= O.ham(x, s) <= maxd}
    ctx.count("nnn_cases")
    ctx.nontriv(["nnn", x, alphabet, maxd, mode])
    ctx.sample("nnn", {"x": x, "alphabet": alphabet, "maxdistance": maxd, "mode": mode, "expected_size": len(want)})
    out = ctx.call(prs.next_nearest_neighbors, x, nb, maxdistance=maxd)
    if not out.ok:
        ctx.violation("next_nearest_neighbors:raised", "raised", out.describe(), None)
        return
    got = out.value
    if not isinstance(got, (set, frozenset)):
        got = set(got)
    if got != want:
        shape = "contains-x" if x in got else ("missing" if want - got else "spurious")
        ctx.violation(f"next_nearest_neighbors:{mode}:{shape}", f"next_nearest_neighbors({x!r}, maxdistance={maxd}) is not the ball minus x: "
                      f"missing {sorted(want - got)[:5]}, spurious {sorted(got - want)[:5]}", len(got), len(want))


def _nb(mode, alphabet):
    import pyrepseq as prs
    if mode == "lev":
        return lambda y: prs.levenshtein_neighbors(y, alphabet)
    return lambda y: prs.hamming_neighbors(y, alphabet)


def _d(mode):
    return O.lev if mode == "lev" else O.ham


def k_pairs(ctx, seqs, alphabet, mode, default_nb=False):
    import pyrepseq as prs
    d = _d(mode)
    uniq = sorted(set(seqs))
    want = collections.Counter(frozenset((a, b)) for i, a in enumerate(uniq) for b in uniq[i + 1:] if d(a, b) == 1)
    ctx.count("pairs_cases")
    ctx.nontriv(["pairs", seqs, alphabet, mode])
    ctx.sample("pairs", {"seqs": seqs[:8], "mode": mode, "expected_pairs": sum(want.values())})
    if default_nb:
        out = ctx.call(prs.find_neighbor_pairs, list(seqs))
    else:
        out = ctx.call(prs.find_neighbor_pairs, list(seqs), _nb(mode, alphabet))
    if not out.ok:
        ctx.violation("find_neighbor_pairs:raised", "raised", out.describe(), None)
    else:
        got = collections.Counter(frozenset(p) for p in out.value)
        bad_self = [p for p in out.value if p[0] == p[1]]
        if got != want or bad_self:
            ctx.violation(f"find_neighbor_pairs:{mode}:wrong", "does not list each unordered distance-1 pair of distinct sequences exactly once",
                          sorted(tuple(sorted(p)) for p in got.elements())[:20], sorted(tuple(sorted(p)) for p in want.elements())[:20])
    # the caller's own set object, used twice (the second answer must be as exact as the first), then a frozenset and a tuple
    sobj = set(seqs)
    for step, cont in (("set-first", sobj), ("set-second", sobj), ("frozenset", frozenset(seqs)), ("tuple", tuple(seqs))):
        ctx.count("pairs_container_steps")
        o2 = ctx.call(prs.find_neighbor_pairs, cont, _nb(mode, alphabet))
        if not o2.ok:
            ctx.violation(f"find_neighbor_pairs:{step}:raised", f"raised for a {type(cont).__name__}", o2.describe(), None)
        elif collections.Counter(frozenset(p) for p in o2.value) != want or any(p[0] == p[1] for p in o2.value):
            ctx.violation(f"find_neighbor_pairs:{mode}:{step}:wrong", f"{type(cont).__name__} ({step}): does not list each unordered distance-1 pair of distinct sequences exactly once",
                          sorted(tuple(sorted(p)) for p in o2.value)[:20], sorted(tuple(sorted(p)) for p in want.elements())[:20])
    # index form on unique sequences
    ulist = list(dict.fromkeys(seqs))
    wanti = collections.Counter((i, j) for i, a in enumerate(ulist) for j, b in enumerate(ulist) if i != j and d(a, b) == 1)
    ctx.count("pairs_index_cases")
    out = ctx.call(prs.find_neighbor_pairs_index, list(ulist), _nb(mode, alphabet))
    if not out.ok:
        ctx.violation("find_neighbor_pairs_index:raised", "raised", out.describe(), None)
    elif collections.Counter((int(i), int(j)) for i, j in out.value) != wanti:
        ctx.violation(f"find_neighbor_pairs_index:{mode}:wrong", "index pairs are not exactly the distance-1 partners",
                      sorted(out.value)[:20], sorted(wanti.elements())[:20])


def k_numbers(ctx, seqs, reference, alphabet, mode, default_nb=False):
    import numpy as np
    import pyrepseq as prs
    d = _d(mode)
    ref = set(reference) if reference is not None else set(seqs)
    want = [sum(1 for r in ref if d(s, r) == 1) for s in seqs]
    ctx.count("neighbor_numbers_cases")
    if reference is not None and not reference:
        ctx.count("empty_reference_cases")
    ctx.nontriv(["num", seqs, reference, alphabet, mode])
    ctx.sample("numbers", {"seqs": seqs[:8], "reference": reference and reference[:8], "mode": mode, "expected": want[:8]})
    kw = {} if default_nb else {"neighborhood": _nb(mode, alphabet)}
    if reference is not None:
        kw["reference"] = set(reference)
    out = ctx.call(prs.calculate_neighbor_numbers, list(seqs), **kw)
    if not out.ok or np.asarray(out.value).tolist() != want:
        ctx.violation(f"calculate_neighbor_numbers:{mode}:wrong", "neighbour numbers differ from the count of distance-1 reference strings",
                      out.describe(), want)
    for s, w in zip(seqs, want):
        o = ctx.call(prs.isdist1, s, ref, **({} if default_nb else {"neighborhood": _nb(mode, alphabet)}))
        ctx.count("isdist1_cases")
        if not o.ok or bool(o.value) != (w > 0):
            ctx.violation(f"isdist1:{mode}:wrong", f"isdist1({s!r}) disagrees with the existence of a distance-1 reference", o.describe(), w > 0)


def k_nndist(ctx, seq, reference, maxdist):
    import pyrepseq as prs
    same = [O.ham(seq, r) for r in reference if len(r) == len(seq)]
    true = min(same) if same else float("inf")
    want = min(true, maxdist)
    ctx.count("nndist_cases")
    ctx.count(f"nndist_value_{want}")
    ctx.nontriv(["nnd", seq, sorted(reference), maxdist])
    ctx.sample(f"nndist:{want}", {"seq": seq, "reference": sorted(reference)[:8], "maxdist": maxdist, "expected": want})
    out = ctx.call(prs.nndist_hamming, seq, set(reference), maxdist=maxdist)
    if not out.ok or out.value != want:
        ctx.violation(f"nndist_hamming:maxdist{maxdist}:wrong", f"nndist_hamming is not min(true nearest Hamming distance {true}, maxdist {maxdist})",
                      out.describe(), want)


KINDS = {"lev1": k_lev1, "ham1": k_ham1, "nnn": k_nnn, "pairs": k_pairs, "numbers": k_numbers, "nndist": k_nndist}


def _chunks(xs, n):
    for i in range(0, len(xs), n):
        yield xs[i:i + n]


def generate(tier, seed):
    rng = random.Random(12000 + seed)
    thorough = tier == "thorough"
    for alpha, L in (("A", 6 if thorough else 5), ("AC", 6 if thorough else 5), ("ACD", 6 if thorough else 5), ("ACDW", 6 if thorough else 4)):
        for ch in _chunks(G.universe(alpha, L), 120):
            yield "lev1", {"xs": ch, "alphabet": alpha, "brute": len(alpha) <= 3}, True
    for alpha, L in (("A", 4), ("AC", 5 if thorough else 4), ("ACD", 5 if thorough else 4)) + ((("ACDW", 5),) if thorough else ()):
        for ch in _chunks(G.universe(alpha, L), 120):
            yield "ham1", {"xs": ch, "alphabet": alpha}, True
            yield "ham1", {"xs": ch, "alphabet": alpha, "positions": [0, 2]}, True
    yield "ham1", {"xs": G.universe("AC", 4), "alphabet": "ACD", "positions": [3, 1]}, True
    for kind in ("tuple", "iter", "generator", "set", "ndarray"):
        yield "ham1", {"xs": G.universe("AC", 3), "alphabet": "ACD", "positions": [0, 2], "positions_kind": kind}, True
    # control and white-space characters are characters like any other
    yield "lev1", {"xs": ["A\n", "\n", "CA\nC", "A\tC", "A\x00", "\x00", "CASSLGQYF\n", "\n\n", "A A", "A\rC"], "alphabet": "AC"}, True
    yield "ham1", {"xs": ["A\n", "\n", "CA\nC", "A\tC", "A\x00"], "alphabet": "AC"}, True
    # hundreds of letters: 256 and more mismatches
    for (a, b, md, _w) in (("A" * 256, "C" * 256, 2, 2), ("A" * 300, "A" * 43 + "C" * 257, 2, 2), ("A" * 256, "A" * 255 + "C", 2, 1), ("A" * 257, "C" * 256 + "A", 1, 1),
                           ("A" * 256, "C" * 256, 1, 1), ("A" * 300, "C" * 300, 2, 2)):
        yield "nndist", {"seq": a, "reference": [b], "maxdist": md}, True
    yield "ham1", {"xs": G.universe("AC", 3), "alphabet": "ACD", "positions": []}, True
    # alphabets of 5, 10, 20 letters; default alphabet
    for i in range(60 * TS if thorough else 8):
        for alpha in ("ACDEF", "ACDEFGHIKL", G.AA):
            xs = [G.rand_string(rng, alpha[:3] if j % 2 else alpha, 0, 9) for j in range(20)]
            yield "lev1", {"xs": xs, "alphabet": alpha}, i < 3
            yield "ham1", {"xs": xs, "alphabet": alpha}, i < 3
        xs = [G.rand_string(rng, "ACW", 0, 8) for _ in range(15)] + ["", "AAAA", "CASSF"]
        yield "lev1", {"xs": xs, "alphabet": G.AA, "default_alphabet": True}, i < 3
    # next nearest neighbours
    nn_x = G.universe("AC", 3) if thorough else ["", "A", "AC", "AAC", "CCA", "ACA"]
    for x in nn_x:
        for maxd in (1, 2, 3):
            yield "nnn", {"x": x, "alphabet": "AC", "maxd": maxd, "mode": "lev"}, True
            if x:
                yield "nnn", {"x": x, "alphabet": "ACD", "maxd": maxd, "mode": "ham"}, True
                yield "nnn", {"x": x, "alphabet": "AC", "maxd": maxd, "mode": "ham"}, True      # 2 letters: parity of steps matters
            yield "nnn", {"x": "A" * len(x), "alphabet": "A", "maxd": maxd, "mode": "lev"}, True    # unary alphabet
            yield "nnn", {"x": x, "alphabet": "ACDW", "maxd": min(maxd, 2), "mode": "lev"}, True
    for i in range(80 * TS if thorough else 8):
        yield "nnn", {"x": G.rand_string(rng, "ACD", 0, 4), "alphabet": "ACD", "maxd": rng.choice([1, 2, 2, 3]), "mode": "lev"}, i < 3
    # utilities
    pools = [("AC", G.universe("AC", 4)), ("ACD", G.universe("ACD", 3)), ("ACDW", G.universe("ACDW", 3))]
    n_u = 1500 * TS if thorough else 90
    for i in range(n_u):
        alpha, pool = pools[i % 3]
        seqs = G.small_multiset(rng, pool, 1, 20)
        mode = "lev" if i % 2 else "ham"
        yield "pairs", {"seqs": seqs, "alphabet": alpha, "mode": mode}, i < 30
        ref = G.small_multiset(rng, pool, 1, 15) if i % 3 else None
        if i % 9 == 1:
            ref = []                      # an explicitly passed empty reference set
        yield "numbers", {"seqs": seqs, "reference": ref, "alphabet": alpha, "mode": mode}, i < 30
    for i in range(100 * TS if thorough else 8):
        rep = G.repertoire(rng, rng.randint(5, 30), lo=2, hi=6)
        yield "pairs", {"seqs": rep, "alphabet": G.AA, "mode": "ham", "default_nb": True}, i < 3
        yield "numbers", {"seqs": rep, "reference": None, "alphabet": G.AA, "mode": "lev", "default_nb": True}, i < 3
    # nndist_hamming on a binary-letter universe: every (seq, single reference) pair, so letters of seq recur in the reference
    bin4 = G.universe("AC", 4, 3)
    cnt = 0
    for a in bin4:
        for b in bin4:
            if len(a) != len(b):
                continue
            cnt += 1
            if thorough or cnt % 3 == 0 or O.ham(a, b) == 3:
                yield "nndist", {"seq": a, "reference": [b], "maxdist": 4 if O.ham(a, b) >= 3 else 1 + cnt % 4}, True
    # nndist_hamming: reference sets built at controlled distances
    n_d = 3000 * TS if thorough else 160
    for i in range(n_d):
        L = rng.randint(1, 6)
        seq = G.rand_string(rng, "ACDEW", L, L)
        ref = set()
        target = i % 6     # 0..5 : nearest distance aimed at
        for _ in range(rng.randint(1, 6)):
            r = list(seq)
            k = 0 if not target else (L if target >= L else rng.randint(target, L))
            for p in rng.sample(range(L), k):
                r[p] = rng.choice([c for c in G.AA if c != seq[p]])
            ref.add("".join(r))
        if i % 5 == 0:
            ref.add(seq + "A")          # other lengths are never Hamming neighbours
        if target and seq in ref:
            ref.discard(seq)
        if not ref:
            ref.add("W" * (L + 2))
        yield "nndist", {"seq": seq, "reference": sorted(ref), "maxdist": 1 + i % 4}, i < 60
