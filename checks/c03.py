"""C03 - two-collection search; database objects answer like a fresh one-shot search."""
import random

from vmon import canon
from vmon import gens as G
from vmon.gens import THOROUGH_SCALE as TS
from vmon import oracles as O
from vmon import search as S

PID = "C03"
RULE = ("cross cases: symdel(R, seqs2=Q), nearest_neighbor(R, seqs2=Q), SymdelDB(R,k).lookup(Q), "
        "LookupDB(R).lookup(Q,k) each compared with the double-loop oracle {(q,r,d): d(Q[q],R[r])<=k}; "
        "history cases: one build, then 5-30 lookups (different query lists, output types, Hamming mode, "
        "failing lookups with a non-string element, lookups abandoned by an injected exception at a "
        "random line inside pyrepseq) - after every step the answer must equal the oracle and a fresh "
        "one-shot search, and the icontract class invariant 'index fingerprint unchanged' must hold. "
        "distinct_nontrivial = distinct (R, Q, k) with at least one expected hit.")
ASSUMPTIONS = ["LookupDB is driven on the 20-letter amino-acid alphabet it enumerates, k<=2 (k=3 on length<=2)",
               "query and reference collections are plain lists here (containers are C10's subject)",
               "icontract invariants run single-threaded at method entry/exit"]
EXHAUSTIVE = {"quick": ["R=Q=all strings len<=4 over AC, k=1..5 (every (q,r) incl. q==r)",
                        "R=all len<=3 over ACD, Q=all len<=2 over ACD, k=1..3"],
              "thorough": ["R=Q=all strings len<=6 over AC, k=1..4", "R=Q=all strings len<=4 over AC, k=1..5",
                           "R=Q=all len<=3 over ACD, k=1..4", "LookupDB: R=Q=all len<=2 over ACD k=1..3"]}
REQUIRE = {"cross_big_cases": 1, "progress_bar_lookups": 11, "hits_q_equals_r": 50, "hits_d0": 50, "queries_without_hit": 20, "lookups_after_first_on_same_build": 30,
           "invariant_evaluations": 100, "failed_lookups_then_continued": 5, "injected_faults_then_continued": 3,
           "lookupdb_cases": 10, "fresh_oneshot_comparisons": 30, "len_Q_ne_len_R": 20, "lookupdb_radius_changes": 10, "same_object_as_both_collections": 5}
SHARDS = {"quick": 6, "thorough": 16}

_INV = {"evals": 0, "installed": False}


class IndexMutated(Exception):
    pass


def _state_fp(self):
    return canon.fingerprint({k: v for k, v in vars(self).items() if not k.startswith("_vmon")})


def _index_unchanged(self):
    """icontract class invariant, evaluated around every public method.  It *records* (never raises): whether the object's
    state changed after construction is an observation reported in the evidence - a lazily filled cache is legitimate - the
    verdict on the property comes from comparing every answer with the oracle and with a fresh one-shot search."""
    try:
        # observation only, so it is skipped for very large indexes (hundreds of thousands of variants), where it would dominate the run
        big = next((v for v in vars(self).values() if isinstance(v, dict) and len(v) > 60000), None)
        if big is not None:
            _INV["skipped_large"] = _INV.get("skipped_large", 0) + 1
            return True
        fp = _state_fp(self)
    except Exception:
        _INV["unobservable"] = _INV.get("unobservable", 0) + 1
        return True
    if getattr(self, "_vmon_fp", None) is None:
        object.__setattr__(self, "_vmon_fp", fp)
        return True
    _INV["evals"] += 1
    if fp != self._vmon_fp:
        _INV["changes"] = _INV.get("changes", 0) + 1
        object.__setattr__(self, "_vmon_fp", fp)
    return True


_symdel_index_unchanged = _lookup_index_unchanged = _index_unchanged


def install_invariants():
    """icontract class invariants on the two database classes (checked around every public method)."""
    if _INV["installed"]:
        return
    import icontract
    import pyrepseq.nn as nn
    nn.SymdelDB = icontract.invariant(_symdel_index_unchanged, error=IndexMutated)(nn.SymdelDB)
    nn.LookupDB = icontract.invariant(_lookup_index_unchanged, error=IndexMutated)(nn.LookupDB)
    _INV["installed"] = True


def self_test():
    O.self_test()
    install_invariants()


def _count_hits(ctx, expected, Q, R):
    ctx.count("hits_q_equals_r", sum(1 for (q, r, d) in expected if q == r))
    ctx.count("hits_d0", sum(1 for (q, r, d) in expected if d == 0))
    hitq = {q for (q, r, d) in expected}
    ctx.count("queries_without_hit", len(Q) - len(hitq))
    if len(Q) != len(R):
        ctx.count("len_Q_ne_len_R")


def k_cross(ctx, refs, queries, k):
    import pyrepseq.nn as nn
    install_invariants()
    before = _INV["evals"]
    exp = O.neigh_cross(queries, refs, k)
    _count_hits(ctx, exp, queries, refs)
    if exp:
        ctx.nontriv([refs, queries, k])
    ctx.sample("cross", {"refs": refs[:8], "queries": queries[:8], "k": k, "hits": sum(exp.values())})
    out = ctx.call(nn.symdel, list(refs), max_edits=k, seqs2=list(queries))
    S.expect_triplets(ctx, out, exp, "symdel", "cross")
    out = ctx.call(nn.nearest_neighbor, list(refs), max_edits=k, seqs2=list(queries))
    S.expect_triplets(ctx, out, exp, "nearest_neighbor", "cross")
    if (len(refs) + k) % 4 == 0:
        # the very same object given as reference and as query collection: still a two-collection search (q == r hits at d = 0)
        same = list(refs)
        exp_same = O.neigh_cross(same, same, k)
        out = ctx.call(nn.symdel, same, max_edits=k, seqs2=same)
        S.expect_triplets(ctx, out, exp_same, "symdel", "cross-same-object")
        ctx.count("same_object_as_both_collections")
    db = ctx.call(nn.SymdelDB, list(refs), k)
    if not db.ok:
        ctx.violation("SymdelDB:build:raised", "SymdelDB construction raised", db.describe(), None)
    else:
        out = ctx.call(db.value.lookup, list(queries))
        S.expect_triplets(ctx, out, exp, "SymdelDB.lookup", "cross")
        if (len(queries) + k) % 5 == 0:
            # the progress bar is display only: the answer with progress=True is the same
            import contextlib
            import io
            with contextlib.redirect_stderr(io.StringIO()):
                out = ctx.call(db.value.lookup, list(queries), progress=True)
                out2 = ctx.call(nn.symdel, list(refs), max_edits=k, seqs2=list(queries), progress=True)
            S.expect_triplets(ctx, out, exp, "SymdelDB.lookup", "cross-progress")
            S.expect_triplets(ctx, out2, exp, "symdel", "cross-progress")
            ctx.count("progress_bar_lookups")
    ctx.count("invariant_evaluations", _INV["evals"] - before)
    if _INV.get("changes"):
        ctx.count("object_state_changes_observed_by_invariant", _INV.pop("changes"))


def k_lookupdb(ctx, refs, queries, k):
    import pyrepseq.nn as nn
    install_invariants()
    before = _INV["evals"]
    exp = O.neigh_cross(queries, refs, k)
    _count_hits(ctx, exp, queries, refs)
    if exp:
        ctx.nontriv(["L", refs, queries, k])
    ctx.count("lookupdb_cases")
    ctx.sample("lookupdb", {"refs": refs[:8], "queries": queries[:8], "k": k, "hits": sum(exp.values())})
    db = ctx.call(nn.LookupDB, list(refs))
    if not db.ok:
        ctx.violation("LookupDB:build:raised", "LookupDB construction raised", db.describe(), None)
        return
    out = ctx.call(db.value.lookup, list(queries), max_edits=k)
    S.expect_triplets(ctx, out, exp, "LookupDB.lookup", "cross")
    # second lookup on the same object, reversed query order: positions must follow the new order
    rq = list(reversed(queries))
    exp2 = O.neigh_cross(rq, refs, k)
    out = ctx.call(db.value.lookup, rq, max_edits=k)
    S.expect_triplets(ctx, out, exp2, "LookupDB.lookup", "cross-repeat")
    ctx.count("lookups_after_first_on_same_build")
    # the same object asked again with other radii (smaller and larger), same queries: no memory of the earlier radius
    for k2 in [kk for kk in (1, 2, 3) if kk != k and (kk <= 2 or max(len(q) for q in queries) <= 2)]:
        expk = O.neigh_cross(queries, refs, k2)
        out = ctx.call(db.value.lookup, list(queries), max_edits=k2)
        S.expect_triplets(ctx, out, expk, "LookupDB.lookup", "cross-other-radius-on-same-object")
        ctx.count("lookupdb_radius_changes")
    out = ctx.call(db.value.lookup, list(queries), max_edits=k)
    S.expect_triplets(ctx, out, exp, "LookupDB.lookup", "cross-original-radius-again")
    if (len(queries) + k) % 5 == 0:
        import contextlib
        import io
        with contextlib.redirect_stderr(io.StringIO()):
            out = ctx.call(db.value.lookup, list(queries), max_edits=k, progress=True)
        S.expect_triplets(ctx, out, exp, "LookupDB.lookup", "cross-progress")
        ctx.count("progress_bar_lookups")
    ctx.count("invariant_evaluations", _INV["evals"] - before)
    if _INV.get("changes"):
        ctx.count("object_state_changes_observed_by_invariant", _INV.pop("changes"))


def _matrix_to_triplets(m):
    """Triplets encoded by a matrix result: value d at [r, q] -> (q, r, d); only used where every d>0."""
    import numpy as np
    import scipy.sparse as sp
    if sp.issparse(m):
        m = m.toarray()
    m = np.asarray(m)
    out = []
    for r, q in zip(*np.nonzero(m)):
        out.append((int(q), int(r), m[r, q]))
    return out


def k_history(ctx, refs, k, steps, use_lookupdb=False):
    """One build, many lookups.  steps: list of dicts {q: [...], mode: lev|hamming, out: triplets|coo_matrix|ndarray,
    bad: bool, fault: int|None}"""
    import pyrepseq.nn as nn
    from vmon.lines import Failpoint, InjectedFault
    install_invariants()
    before = _INV["evals"]
    sdb = ctx.call(nn.SymdelDB, list(refs), k)
    ldb = ctx.call(nn.LookupDB, list(refs)) if use_lookupdb else None
    if not sdb.ok or (ldb is not None and not ldb.ok):
        ctx.violation("DB:build:raised", "database construction raised", (sdb.describe(), ldb and ldb.describe()), None)
        return
    ctx.sample("history", {"refs": refs[:8], "k": k, "steps": steps[:4], "n_steps": len(steps)})
    ctx.distinct("lookup_histories", [refs, k, steps])
    for si, st in enumerate(steps):
        q = st["q"]
        mode = st.get("mode", "lev")
        kw = {}
        if mode == "hamming":
            kw["custom_distance"] = "hamming"
        if st.get("bad"):
            bq = list(q)
            bq.insert(len(bq) // 2, 5)
            out = ctx.call(sdb.value.lookup, bq, **kw)
            if out.ok:
                ctx.violation("SymdelDB.lookup:non-string-accepted", "lookup with a non-string query element returned a result",
                              out.value, "an exception")
            ctx.count("failed_lookups_then_continued")
            continue
        if st.get("fault"):
            try:
                with Failpoint(st["fault"]) as fp:
                    sdb.value.lookup(list(q), **kw)
            except InjectedFault:
                ctx.count("injected_faults_then_continued")
            except IndexMutated:
                ctx.violation("SymdelDB:index-mutated:after-fault", "index changed by an abandoned lookup", None, None)
            except Exception:
                pass
            continue
        exp = O.neigh_cross(q, refs, k, "lev" if mode == "lev" else "ham")
        _count_hits(ctx, exp, q, refs)
        if exp:
            ctx.nontriv(["H", refs, q, k, mode])
        otype = st.get("out", "triplets")
        out = ctx.call(sdb.value.lookup, list(q), output_type=otype, **kw)
        if isinstance(out.exc, IndexMutated):
            ctx.violation("SymdelDB:index-mutated", "icontract invariant: index fingerprint changed by lookup", out.describe(), None)
            return
        if otype == "triplets":
            S.expect_triplets(ctx, out, exp, "SymdelDB.lookup", f"history-{mode}")
        elif out.ok:
            got = O.canon_triplets(_matrix_to_triplets(out.value))
            exp_nz = type(exp)({t: c for t, c in exp.items() if t[2] != 0})
            if got != exp_nz:
                ctx.violation(f"SymdelDB.lookup:history-{mode}:{otype}", "matrix answer of a repeated lookup differs from oracle",
                              sorted(got.elements())[:30], sorted(exp_nz.elements())[:30])
        else:
            ctx.violation(f"SymdelDB.lookup:history-{mode}:raised", "repeated lookup raised", out.describe(), None)
        if si > 0:
            ctx.count("lookups_after_first_on_same_build")
        # the same answer as a fresh one-shot search
        fresh = ctx.call(nn.symdel, list(refs), max_edits=k, seqs2=list(q), **kw)
        S.expect_triplets(ctx, fresh, exp, "symdel", f"cross-{mode}")
        ctx.count("fresh_oneshot_comparisons")
        if ldb is not None and mode == "lev":
            out = ctx.call(ldb.value.lookup, list(q), max_edits=k)
            if isinstance(out.exc, IndexMutated):
                ctx.violation("LookupDB:index-mutated", "icontract invariant: index fingerprint changed by lookup", out.describe(), None)
                return
            S.expect_triplets(ctx, out, exp, "LookupDB.lookup", "history")
    ctx.count("invariant_evaluations", _INV["evals"] - before)
    if _INV.get("changes"):
        ctx.count("object_state_changes_observed_by_invariant", _INV.pop("changes"))


def k_cross_big(ctx, n_refs, n_queries, k, np_seed, n_cpu=None):
    """One side with tens of thousands of sequences (positions beyond 2^15 / 2^16), the other small enough for the oracle."""
    import pyrepseq.nn as nn
    rng = random.Random(np_seed)
    big = G.repertoire(rng, max(n_refs, n_queries), families=max(1, max(n_refs, n_queries) // 3))
    small_n = min(n_refs, n_queries)
    # the small side: copies / one-edit variants of sequences spread over the whole big side, including its very end
    picks = [len(big) - 1 - 7 * i for i in range(small_n // 2)] + [rng.randrange(len(big)) for _ in range(small_n - small_n // 2)]
    small = [big[p] if i % 3 == 0 else G.mutate(rng, big[p], G.AA, 1) for i, p in enumerate(picks)]
    refs, queries = (big, small) if n_refs >= n_queries else (small, big)
    exp = O.neigh_cross(queries, refs, k)
    ctx.count("cross_big_cases")
    ctx.count("cross_big_reference" if n_refs >= n_queries else "cross_big_queries")
    ctx.nontriv(["cbig", n_refs, n_queries, k, np_seed, n_cpu])
    ctx.sample("cross_big", {"n_refs": len(refs), "n_queries": len(queries), "k": k, "hits": sum(exp.values()), "n_cpu": n_cpu})
    kw = {} if n_cpu is None else {"n_cpu": n_cpu}
    out = ctx.call(nn.symdel, list(refs), max_edits=k, seqs2=list(queries), **kw)
    S.expect_triplets(ctx, out, exp, "symdel", "cross-big")
    out = ctx.call(nn.nearest_neighbor, list(refs), max_edits=k, seqs2=list(queries), **kw)
    S.expect_triplets(ctx, out, exp, "nearest_neighbor", "cross-big")
    db = ctx.call(nn.SymdelDB, list(refs), k)
    if db.ok:
        out = ctx.call(db.value.lookup, list(queries))
        S.expect_triplets(ctx, out, exp, "SymdelDB.lookup", "cross-big")


KINDS = {"cross": k_cross, "lookupdb": k_lookupdb, "history": k_history, "cross_big": k_cross_big}


def _steps(rng, pool, n, with_faults=True):
    steps = []
    for i in range(n):
        q = G.small_multiset(rng, pool, 1, 12)
        st = {"q": q, "mode": rng.choice(["lev", "lev", "lev", "hamming"]),
              "out": rng.choice(["triplets", "triplets", "coo_matrix", "ndarray"])}
        r = rng.random()
        if i > 0 and r < 0.15:
            st["bad"] = True
        elif with_faults and i > 0 and r < 0.3:
            st["fault"] = rng.randint(1, 120)
        steps.append(st)
    return steps


def generate(tier, seed):
    rng = random.Random(3000 + seed)
    thorough = tier == "thorough"
    u = G.universe("AC", 4)
    for k in range(1, 6):
        yield "cross", {"refs": u, "queries": u, "k": k}, True
    r3, q2 = G.universe("ACD", 3), G.universe("ACD", 2)
    for k in range(1, 4):
        yield "cross", {"refs": r3, "queries": q2, "k": k}, True
        yield "cross", {"refs": q2, "queries": r3, "k": k}, True
    # D3-class: identical positions / identical sequences
    yield "lookupdb", {"refs": ["CAAA", "CDDD"], "queries": ["CAAA", "CDDE"], "k": 1}, True
    yield "lookupdb", {"refs": ["A", "C", "AC"], "queries": ["A", "C", "AC", "CA"], "k": 1}, True
    u2 = G.universe("ACD", 2)
    for k in (1, 2, 3):
        yield "lookupdb", {"refs": u2, "queries": u2, "k": k}, True
    # sequences of 30-110 letters with radii 3-5 (hundreds of thousands of deletion variants each)
    for (L, k) in ((106, 3), (47, 4), (31, 5), (40, 3)) if thorough else ((40, 3), (24, 4)):
        base = G.rand_string(rng, G.AA, L + 1, L + 1)
        refs = [base, G.mutate(rng, base, G.AA, 1), base[:-1] + "WW"]
        queries = [base[1:], base[:L // 2] + base[L // 2 + 1:], base, G.rand_string(rng, G.AA, L, L)]
        yield "cross", {"refs": refs, "queries": queries, "k": k}, True
    # tens of thousands of sequences on one side
    yield "cross_big", {"n_refs": 33500, "n_queries": 40, "k": 1, "np_seed": 3300 + seed}, True
    if thorough:
        yield "cross_big", {"n_refs": 66000, "n_queries": 60, "k": 1, "np_seed": 3301 + seed}, True
        yield "cross_big", {"n_refs": 40, "n_queries": 20001, "k": 1, "np_seed": 3302 + seed, "n_cpu": 4}, True
        yield "cross_big", {"n_refs": 40, "n_queries": 70001, "k": 1, "np_seed": 3303 + seed, "n_cpu": 3}, True
    # every stored sequence and every query of one single length: pairs that need an insertion plus a deletion (shifts)
    same3 = G.universe("AC", 3, 3)
    for k in (2, 3):
        if k == 2 or thorough:
            yield "lookupdb", {"refs": same3, "queries": same3, "k": k}, True
        yield "cross", {"refs": same3, "queries": same3, "k": k}, True
    yield "lookupdb", {"refs": ["CASLGFF", "CASSLGF", "CAWLGFF"], "queries": ["CASSLGF", "CASLGFF", "ASLGFFC"], "k": 2}, True
    if thorough:
        u = G.universe("AC", 6)
        for k in range(1, 5):
            yield "cross", {"refs": u, "queries": u, "k": k}, True
        u = G.universe("ACD", 3)
        for k in range(1, 5):
            yield "cross", {"refs": u, "queries": u, "k": k}, True
    pools = [G.universe("AC", 5), G.universe("ACD", 4), G.universe("ACDW", 3), G.universe("AC", 4) + G.hostile_strings(),
             G.NON_AMINO + G.universe("ab", 3)]
    n_rand = 5000 * TS if thorough else 300
    for i in range(n_rand):
        pool = pools[i % len(pools)]
        refs = G.small_multiset(rng, pool, 1, 40)
        queries = G.small_multiset(rng, pool, 1, 25)
        if rng.random() < 0.3:           # overlapping content at equal positions
            m = min(len(refs), len(queries))
            for j in range(0, m, 2):
                queries[j] = refs[j]
        yield "cross", {"refs": refs, "queries": queries, "k": rng.choice([1, 1, 2, 2, 3, 4])}, i < 80
    # repertoires
    n_rep = 300 * TS if thorough else 25
    for i in range(n_rep):
        rep = G.repertoire(rng, rng.randint(40, 160 if not thorough else 300))
        cut = rng.randint(5, len(rep) - 5)
        refs, queries = rep[:cut], rep[cut:] + rng.sample(rep[:cut], min(5, cut))
        yield "cross", {"refs": refs, "queries": queries, "k": rng.choice([1, 2, 2, 3])}, i < 6
    # LookupDB on its documented domain
    aa_pool = G.universe("ACD", 3) + G.universe("WY", 3)
    n_l = 1500 * TS if thorough else 80
    for i in range(n_l):
        if i % 4 == 0:
            rep = G.repertoire(rng, rng.randint(10, 40), lo=2, hi=5)
            cut = rng.randint(3, len(rep) - 3)
            refs, queries, k = rep[:cut], rep[cut:cut + 8] + rep[:3], 1 if i % 8 else 2
        else:
            refs = G.small_multiset(rng, aa_pool, 1, 25)
            queries = G.small_multiset(rng, aa_pool, 1, 10)
            k = rng.choice([1, 1, 2])
            if rng.random() < 0.4:
                for j in range(min(len(refs), len(queries))):
                    if rng.random() < 0.5:
                        queries[j] = refs[j]
        yield "lookupdb", {"refs": refs, "queries": queries, "k": k}, i < 30
    # histories
    n_h = 600 * TS if thorough else 40
    for i in range(n_h):
        pool = [G.universe("AC", 5), G.universe("ACD", 3) + G.universe("WY", 3), G.universe("ACDW", 3)][i % 3]
        refs = G.small_multiset(rng, pool, 3, 40)
        k = rng.choice([1, 1, 2, 3]) if i % 3 != 1 else rng.choice([1, 1, 2])
        yield "history", {"refs": refs, "k": k, "steps": _steps(rng, pool, rng.randint(5, 30 if thorough else 12)),
                          "use_lookupdb": i % 3 == 1}, i < 12
