"""C19 - summaries and plots encode the data faithfully (headless Agg; data read back from the artists)."""
import collections
import itertools
import random
import re

from vmon import gens as G
from vmon.gens import THOROUGH_SCALE as TS
from vmon import oracles as O

PID = "C19"
RULE = ("regex cases: seqs_to_regex(seqs, align=False) must full-match every input (gaps removed), accept every word of the product of "
        "per-position observed residue sets (enumerated when <= 20000 words, else 2000 sampled) and reject 200 generated non-members; "
        "consensus cases: the residue returned at each kept position has the column-maximal count; seqlogos: returned matrix = own "
        "per-position counts. rankfrequency: Line2D x/y data against the sorted non-missing values and 0-based ranks under all four "
        "normalisation flags and scale factors. labels_to_colors_hls/tableau: equal => equal, rarer than min_count => black, hls distinct "
        "=> distinct. density_scatter(discrete=True): offsets = distinct points once, colour array = multiplicities. similarity_clustermap: "
        "linkage/cluster = SciPy on oracle (summed-chain) distances; data2d[a,b] below the diagonal = alpha distance, above = beta distance "
        "of order[a], order[b] with order = dendrogram_row.reordered_ind; arbitrary index, metadata columns, single-chain form. "
        "distinct_nontrivial = distinct cases.")
ASSUMPTIONS = ["align=True / unequal-length seqlogos shell out to mafft-linsi (not installed): outside the quantifier ('without alignment')",
               "gap character is '-' (logomaker's ignored characters); every column holds at least one residue",
               "matplotlib Agg backend; artist data are read back from the returned / current Axes"]
EXHAUSTIVE = {"quick": ["rankfrequency: all 4 normalisation flag combinations x 2 scale settings on fixed witnesses"],
              "thorough": ["rankfrequency: all 4 flag combinations x 3 scale settings x log flags on fixed witnesses",
                           "regex: every multiset of 1..3 sequences of length 2 over AC"]}
REQUIRE = {"rankfrequency_integer_dtype_cases": 7, "plots_on_implicit_axes": 4, "regex_cases": 9, "regex_members_checked": 408, "regex_nonmembers_checked": 500, "regex_gapped_cases": 2, "regex_every_column_gapped": 2, "consensus_cases": 7,
           "seqlogos_cases": 2, "rankfrequency_cases": 9, "rankfrequency_with_missing": 5, "label_color_cases": 10, "label_rare_black_checked": 8,
           "density_scatter_cases": 5, "clustermap_cases": 4, "clustermap_cells_checked": 138, "clustermap_single_chain": 2, "clustermap_meta": 1}
SHARDS = {"quick": 6, "thorough": 16}


def self_test():
    O.self_test()


def _close_figs():
    import matplotlib.pyplot as plt
    plt.close("all")


def _columns(seqs):
    L = len(seqs[0])
    return [collections.Counter(s[i] for s in seqs if s[i] != "-") for i in range(L)]


def k_regex(ctx, seqs):
    import pyrepseq as prs
    cols = _columns(seqs)
    n = len(seqs)
    gapped = any("-" in s for s in seqs)
    ctx.count("regex_cases")
    if gapped:
        ctx.count("regex_gapped_cases")
        if seqs and all(any(t[c] == "-" for t in seqs) for c in range(len(seqs[0]))):
            ctx.count("regex_every_column_gapped")
    ctx.nontriv(["re", seqs])
    ctx.sample("regex" + (":gapped" if gapped else ""), {"seqs": seqs[:6]})
    out = ctx.call(prs.seqs_to_regex, list(seqs), align=False)
    form = "gapped" if gapped else "ungapped"
    if not out.ok:
        ctx.violation(f"seqs_to_regex:{form}:raised", "raised", out.describe(), None)
        return
    try:
        rx = re.compile(out.value)
    except Exception as e:
        ctx.violation(f"seqs_to_regex:{form}:not-a-regex", f"result does not compile: {e}", out.value, None)
        return
    for s in seqs:
        t = s.replace("-", "")
        if not rx.fullmatch(t):
            ctx.violation(f"seqs_to_regex:{form}:input-not-matched", f"input {t!r} is not fully matched by {out.value!r}", out.value, t)
            return
    # language = product of observed residue sets (a gapped column is optional)
    sets = []
    for c in cols:
        opts = sorted(c)
        if sum(c.values()) != n:
            opts = opts + [""]
        sets.append(opts)
    size = 1
    for s_ in sets:
        size *= len(s_)
    rng = random.Random(len(seqs) * 7 + len(seqs[0]))
    if size <= 20000:
        words = ("".join(t) for t in itertools.product(*sets))
    else:
        words = ("".join(rng.choice(s_) for s_ in sets) for _ in range(2000))
    for w in words:
        ctx.count("regex_members_checked")
        if not rx.fullmatch(w):
            ctx.violation(f"seqs_to_regex:{form}:member-rejected", f"{w!r} is built from residues observed at each position but is rejected by {out.value!r}", out.value, w)
            return
    lang_minlen = sum(1 for s_ in sets if "" not in s_)
    lang_maxlen = len(sets)
    alphabet = sorted(set("".join(seqs).replace("-", "")) | {"Q", "W"})
    tried = 0
    for _ in range(600):
        if tried >= 200:
            break
        base = [rng.choice(s_) for s_ in sets]
        how = rng.randrange(3)
        if how == 0:
            pos = [i for i in range(len(sets)) if len(set(alphabet) - set(sets[i])) > 0 and "" not in sets[i]]
            if not pos:
                continue
            i = rng.choice(pos)
            base[i] = rng.choice(sorted(set(alphabet) - set(sets[i])))
            w = "".join(base)
            # make sure it is not a member through another alignment of optional columns
            if _member(w, sets):
                continue
        elif how == 1:
            w = "".join(base) + rng.choice(alphabet)
            if len(w) <= lang_maxlen and _member(w, sets):
                continue
        else:
            w = "".join(base)
            if not w:
                continue
            w = w[:-1]
            if len(w) >= lang_minlen and _member(w, sets):
                continue
        tried += 1
        ctx.count("regex_nonmembers_checked")
        if rx.fullmatch(w):
            ctx.violation(f"seqs_to_regex:{form}:non-member-accepted", f"{w!r} is not in the per-position language but is accepted by {out.value!r}", out.value, w)
            return


def _member(w, sets):
    """is w in the product language (dynamic programming over optional columns)"""
    reach = {0}
    for s_ in sets:
        nxt = set()
        for p in reach:
            if "" in s_:
                nxt.add(p)
            if p < len(w) and w[p] in s_:
                nxt.add(p + 1)
        reach = nxt
        if not reach:
            return False
    return len(w) in reach


def k_consensus(ctx, seqs):
    import pyrepseq as prs
    cols = _columns(seqs)
    n = len(seqs)
    ctx.count("consensus_cases")
    ctx.nontriv(["co", seqs])
    ctx.sample("consensus", {"seqs": seqs[:6]})
    out = ctx.call(prs.seqs_to_consensus, list(seqs), align=False)
    if not out.ok:
        ctx.violation("seqs_to_consensus:raised", "raised", out.describe(), None)
        return
    res = out.value
    gapped = any("-" in s_ for s_ in seqs)
    if not isinstance(res, str):
        ctx.violation("seqs_to_consensus:type", "consensus is not a string", res, None)
        return
    if not gapped:
        if len(res) != len(cols):
            ctx.violation("seqs_to_consensus:length", "consensus does not have one residue per position", res, len(cols))
            return
        kept = cols
    else:
        # which gap-rich positions are dropped is not part of the property: the result must be readable as a most
        # frequent residue of an increasing sub-sequence of positions
        kept, p = [], 0
        for ch in res:
            while p < len(cols) and cols[p].get(ch, 0) != max(cols[p].values()):
                p += 1
            if p == len(cols):
                ctx.violation("seqs_to_consensus:not-most-frequent", f"{res!r} cannot be read as most frequent residues of successive positions", res, [dict(c) for c in cols])
                return
            kept.append(cols[p])
            p += 1
    for i, (ch, c) in enumerate(zip(res, kept)):
        if c.get(ch, 0) != max(c.values()):
            ctx.violation("seqs_to_consensus:not-most-frequent", f"position {i}: {ch!r} occurs {c.get(ch, 0)} times, the column maximum is {max(c.values())}",
                          res, dict(c))
            return


def k_seqlogos(ctx, seqs):
    import matplotlib.pyplot as plt
    import pyrepseq.plotting as pp
    ctx.count("seqlogos_cases")
    ctx.nontriv(["lo", seqs])
    ctx.sample("seqlogos", {"seqs": seqs[:6]})
    fig, ax = plt.subplots()
    if len(seqs) % 3 == 0:
        ctx.count("plots_on_implicit_axes")
        ax = None                 # seqlogos makes its own figure
    out = ctx.call(pp.seqlogos, list(seqs), ax=ax)
    try:
        if not out.ok:
            ctx.violation("seqlogos:raised", "raised", out.describe(), None)
            return
        rax, mat = out.value
        cols = _columns(seqs)
        if mat.shape[0] != len(cols):
            ctx.violation("seqlogos:shape", "count matrix does not have one row per position", list(mat.shape), len(cols))
            return
        for i, c in enumerate(cols):
            for ch in set(mat.columns) | set(c):
                got = float(mat.iloc[i][ch]) if ch in mat.columns else 0.0
                if got != c.get(ch, 0):
                    ctx.violation("seqlogos:counts", f"position {i} residue {ch}: matrix holds {got}, {c.get(ch, 0)} sequences show it", got, c.get(ch, 0))
                    return
    finally:
        _close_figs()


def k_rankfrequency(ctx, data, normalize_x, normalize_y, scalex, scaley, log_x=True, log_y=True, dtype=None):
    import matplotlib.pyplot as plt
    import numpy as np
    import pyrepseq.plotting as pp
    vals = [float("nan") if v is None else float(v) for v in data]
    clean = [v for v in vals if v == v]
    ctx.count("rankfrequency_cases")
    if len(clean) != len(vals):
        ctx.count("rankfrequency_with_missing")
    ctx.nontriv(["rf", data, normalize_x, normalize_y, scalex, scaley])
    ctx.sample("rankfrequency", {"data": data[:10], "normalize_x": normalize_x, "normalize_y": normalize_y, "scalex": scalex, "scaley": scaley})
    tot = sum(clean)
    xs = sorted([(v / tot if normalize_x else v) for v in clean], reverse=True)
    n = len(xs)
    want_x = [v * scalex for v in xs]
    want_y = [scaley * i / (n if normalize_y else 1) for i in range(n)]
    fig, ax = plt.subplots()
    if len(vals) % 3 == 0:
        ctx.count("plots_on_implicit_axes")
    arr = np.array(vals)
    if dtype:
        arr = np.array([int(v) for v in vals], dtype=dtype)          # count vectors as integer arrays of any width / signedness
        ctx.count("rankfrequency_integer_dtype_cases")
    out = ctx.call(pp.rankfrequency, arr, ax=(None if len(vals) % 3 == 0 else ax), normalize_x=normalize_x, normalize_y=normalize_y, scalex=scalex, scaley=scaley,
                   log_x=log_x, log_y=log_y)
    try:
        key = f"rankfrequency:nx{int(normalize_x)}ny{int(normalize_y)}"
        if not out.ok:
            ctx.violation(key + ":raised", "raised", out.describe(), None)
            return
        lines = out.value
        if hasattr(lines, "get_xdata"):
            lines = [lines]
        try:
            ok_ret = bool(lines) and hasattr(lines[0], "get_xdata")
        except Exception:
            ok_ret = False
        if not ok_ret:
            lines = list(ax.lines)          # the return value is not part of the property: read what was drawn
        if not lines:
            ctx.violation(key + ":no-line", "nothing was drawn on the axes", out.value, None)
            return
        gx = np.asarray(lines[0].get_xdata(), dtype=float).tolist()
        gy = np.asarray(lines[0].get_ydata(), dtype=float).tolist()
        if len(gx) != n or any(abs(a - b) > 1e-12 + 1e-9 * abs(b) for a, b in zip(gx, want_x)):
            ctx.violation(key + ":x-data", "x data are not the non-missing values (frequencies) in descending order", gx[:12], want_x[:12])
        elif len(gy) != n or any(abs(a - b) > 1e-12 + 1e-9 * abs(b) for a, b in zip(gy, want_y)):
            ctx.violation(key + ":y-data", "y data are not the 0-based ranks (scaled / normalised)", gy[:12], want_y[:12])
        if lines[0] not in ax.lines:
            ctx.count("rankfrequency_line_not_on_given_axes")     # not part of the property
    finally:
        _close_figs()


def k_labels(ctx, labels, min_count, which, np_seed):
    import numpy as np
    import pyrepseq.plotting as pp
    ctx.count("label_color_cases")
    ctx.nontriv(["lab", labels, min_count, which, np_seed])
    ctx.sample(f"labels:{which}", {"labels": labels[:12], "min_count": min_count})
    fn = pp.labels_to_colors_hls if which == "hls" else pp.labels_to_colors_tableau
    np.random.seed(np_seed)
    kw = {} if min_count is None else {"min_count": min_count}
    arg = list(labels)
    out = ctx.call(fn, arg, **kw)
    if not out.ok:
        ctx.violation(f"labels_to_colors_{which}:raised", "raised", out.describe(), None)
        return
    cols = [tuple(round(float(v), 9) for v in c) for c in out.value]
    if len(cols) != len(labels):
        ctx.violation(f"labels_to_colors_{which}:length", "not one colour per label", len(cols), len(labels))
        return
    cnt = collections.Counter(labels)
    by = {}
    for l, c in zip(labels, cols):
        if l in by and by[l] != c:
            ctx.violation(f"labels_to_colors_{which}:equal-labels-different-colours", f"label {l!r} has two colours", [by[l], c], None)
            return
        by[l] = c
    for l, c in by.items():
        rare = min_count is not None and cnt[l] < min_count
        if rare:
            ctx.count("label_rare_black_checked")
            if c != (0.0, 0.0, 0.0):
                ctx.violation(f"labels_to_colors_{which}:rare-not-black", f"label {l!r} seen {cnt[l]} < min_count={min_count} times is not black", c, (0, 0, 0))
                return
        elif c == (0.0, 0.0, 0.0):
            ctx.violation(f"labels_to_colors_{which}:frequent-black", f"label {l!r} seen {cnt[l]} times (>= min_count) is black", c, None)
            return
    if which == "hls":
        frequent = [c for l, c in by.items() if not (min_count is not None and cnt[l] < min_count)]
        if len(set(frequent)) != len(frequent):
            ctx.violation("labels_to_colors_hls:distinct-labels-same-colour", "two distinct labels share a colour", sorted(frequent)[:6], None)
    if arg != list(labels):
        ctx.count("label_list_modified")                    # argument purity is C20's property: observation only here


def k_density(ctx, pts, sort):
    import matplotlib.pyplot as plt
    import numpy as np
    import pyrepseq.plotting as pp
    ctx.count("density_scatter_cases")
    ctx.nontriv(["ds", pts, sort])
    ctx.sample("density_scatter", {"points": pts[:10], "sort": sort})
    fig, ax = plt.subplots()
    x = [p[0] for p in pts]
    y = [p[1] for p in pts]
    if len(pts) % 3 == 0:
        ctx.count("plots_on_implicit_axes")          # ax=None: the current axes, which are the ones just created
    out = ctx.call(pp.density_scatter, x, y, ax=(None if len(pts) % 3 == 0 else ax), discrete=True, sort=sort)
    try:
        if not out.ok:
            ctx.violation("density_scatter:discrete:raised", "raised", out.describe(), None)
            return
        coll = ax.collections[-1] if ax.collections else None
        if coll is None:
            ctx.violation("density_scatter:discrete:nothing-drawn", "no scatter collection on the axes", None, None)
            return
        off = [tuple(float(v) for v in o) for o in np.asarray(coll.get_offsets()).tolist()]
        arr = [float(v) for v in np.asarray(coll.get_array()).tolist()]
        want = collections.Counter((float(a), float(b)) for a, b in pts)
        got = dict(zip(off, arr))
        if len(off) != len(set(off)) or set(off) != set(want):
            ctx.violation("density_scatter:discrete:points", "drawn offsets are not each distinct point exactly once", sorted(off)[:10], sorted(want)[:10])
        elif any(got[p] != want[p] for p in want):
            ctx.violation("density_scatter:discrete:multiplicity", "colour values are not the multiplicities of the points", got, dict(want))
        elif sort and arr != sorted(arr):
            ctx.count("density_scatter_not_sorted_by_density")   # drawing order is not part of the property
    finally:
        _close_figs()


def k_clustermap(ctx, rows, single=None, index=None, meta=False, method="average", t=6):
    import numpy as np
    import pandas as pd
    import scipy.cluster.hierarchy as hc
    import pyrepseq.plotting as pp
    n = len(rows)
    ctx.count("clustermap_cases")
    ctx.nontriv(["cm", rows, single, index, meta, method, t])
    ctx.sample("clustermap", {"rows": rows[:5], "n": n, "single": single, "index": index, "meta": meta})
    df = pd.DataFrame({"cdr3a": [r[0] for r in rows], "cdr3b": [r[1] for r in rows], "donor": [f"d{i % 3}" for i in range(n)],
                       "epi": [["x", "y"][i % 2] for i in range(n)]})
    if index == "string":
        df.index = [f"c{i}" for i in range(n)]
    elif index == "shifted":
        df.index = range(50, 50 + n)
    da = np.array([[O.lev(r[0], s[0]) for s in rows] for r in rows], dtype=float)
    db = np.array([[O.lev(r[1], s[1]) for s in rows] for r in rows], dtype=float)
    kw = dict(linkage_kws=dict(method=method, optimal_ordering=True), cluster_kws=dict(t=t, criterion="distance"))
    if single == "alpha":
        ctx.count("clustermap_single_chain")
        kw.update(alpha_column="cdr3a", beta_column=None)
        low = up = da
    elif single == "beta":
        ctx.count("clustermap_single_chain")
        kw.update(alpha_column=None, beta_column="cdr3b")
        low = up = db
    else:
        low, up = da, db
    tot = low + up if single is None else low
    if meta:
        ctx.count("clustermap_meta")
        kw["meta_columns"] = {"donor": "Donor", "epi": "Epitope"} if n % 2 else ["donor", "epi"]
    cond = [tot[i, j] for i in range(n) for j in range(i + 1, n)]
    wl = hc.linkage(np.array(cond), **kw["linkage_kws"])
    wc = hc.fcluster(wl, **kw["cluster_kws"])
    np.random.seed(n)
    out = ctx.call(pp.similarity_clustermap, df, **kw)
    try:
        key = "similarity_clustermap:" + ("paired" if single is None else "single-chain")
        if not out.ok:
            ctx.violation(key + ":raised", "raised", out.describe(), None)
            return
        cg, L, C = out.value
        if np.asarray(L).shape != wl.shape or not np.allclose(np.asarray(L, dtype=float), wl, atol=1e-12, rtol=0):
            ctx.violation(key + ":linkage", "linkage differs from SciPy's linkage of the summed chain distances", L, wl)
            return
        if np.asarray(C).tolist() != wc.tolist():
            ctx.violation(key + ":clusters", "clusters differ from SciPy's fcluster", C, wc)
            return
        order = list(cg.dendrogram_row.reordered_ind)
        if sorted(order) != list(range(n)):
            ctx.violation(key + ":order", "dendrogram order is not a permutation of the rows", order, None)
            return
        want_order = hc.leaves_list(wl).tolist()
        if order != want_order:
            ctx.violation(key + ":order", "heat-map order is not the dendrogram order of the returned linkage", order, want_order)
            return
        D = np.asarray(cg.data2d, dtype=float)
        if D.shape != (n, n):
            ctx.violation(key + ":heatmap-shape", "data2d is not n x n", list(D.shape), [n, n])
            return
        for a in range(n):
            for b in range(n):
                ctx.count("clustermap_cells_checked")
                if a > b:
                    want = low[order[a], order[b]]
                    part = "below-diagonal(alpha)"
                elif a < b:
                    want = up[order[a], order[b]]
                    part = "above-diagonal(beta)"
                else:
                    want = 0.0
                    part = "diagonal"
                if D[a, b] != want:
                    ctx.violation(key + f":heatmap:{part.split('(')[0]}", f"data2d[{a},{b}] = {D[a, b]}, expected the {part} distance {want} of rows {order[a]},{order[b]}",
                                  D, None)
                    return
    finally:
        _close_figs()


KINDS = {"regex": k_regex, "consensus": k_consensus, "seqlogos": k_seqlogos, "rankfrequency": k_rankfrequency, "labels": k_labels,
         "density": k_density, "clustermap": k_clustermap}


def _eq_len_seqs(rng, n, L, alphabet, gaps=False):
    root = "".join(rng.choice(alphabet) for _ in range(L))
    seqs = []
    for _ in range(n):
        s = list(root)
        for _ in range(rng.randint(0, 3)):
            s[rng.randrange(L)] = rng.choice(alphabet)
        seqs.append("".join(s))
    if gaps and L > 1 and n > 1:
        for _ in range(rng.randint(1, 3)):
            i, j = rng.randrange(n), rng.randrange(L)
            if sum(1 for s in seqs if s[j] != "-") > 1:
                seqs[i] = seqs[i][:j] + "-" + seqs[i][j + 1:]
    return seqs


def generate(tier, seed):
    rng = random.Random(19000 + seed)
    thorough = tier == "thorough"
    for flags in itertools.product([True, False], repeat=2):
        for sc in ([(1.0, 1.0), (2.0, 0.5)] + ([(1000.0, 3.0)] if thorough else [])):
            yield "rankfrequency", {"data": [5, 1, 3, 3, None, 10, 1], "normalize_x": flags[0], "normalize_y": flags[1], "scalex": sc[0], "scaley": sc[1]}, True
            if thorough:
                yield "rankfrequency", {"data": [2, 7, 7, 1], "normalize_x": flags[0], "normalize_y": flags[1], "scalex": sc[0], "scaley": sc[1],
                                        "log_x": False, "log_y": False}, True
    if thorough:
        two = G.universe("AC", 2, 2)
        for n in (1, 2, 3):
            for ms in itertools.combinations_with_replacement(two, n):
                yield "regex", {"seqs": list(ms)}, True
                yield "consensus", {"seqs": list(ms)}, True
    yield "regex", {"seqs": ["CASSF", "CASSF"]}, True
    yield "regex", {"seqs": ["CASSF", "CAWSF", "CATSY"]}, True
    yield "regex", {"seqs": ["CA-SF", "CAWSF", "C-TSY"]}, True
    yield "consensus", {"seqs": ["CASSF", "CAWSF", "CATSY", "CAWTY"]}, True
    yield "seqlogos", {"seqs": ["CASSF", "CAWSF", "CATSY", "CAWTY"]}, True
    # columns where most sequences show a gap (still one residue in every column)
    yield "consensus", {"seqs": ["C-SF", "C-SF", "CASF", "C-TF"]}, True
    yield "consensus", {"seqs": ["-A-", "CA-", "-AW", "-C-", "-A-"]}, True
    yield "regex", {"seqs": ["C-SF", "C-SF", "CASF", "C-TF"]}, True
    # staggered alignments: every column shows a gap in some sequence (and a residue in another)
    for stag in (["AB-", "-BC", "A-C"], ["-A", "C-"], ["CA-SL", "C-TSL", "-ASSF", "CAS-L", "CASS-"], ["A-", "-C", "AC", "A-"]):
        yield "regex", {"seqs": stag}, True
        yield "consensus", {"seqs": stag}, True
    for i in range(500 * TS if thorough else 40):
        L = rng.randint(1, 9)
        n = rng.randint(1, 12)
        alpha = rng.choice(["AC", "ACDW", G.AA])
        gaps = i % 4 == 0
        seqs = _eq_len_seqs(rng, n, L, alpha, gaps)
        yield "regex", {"seqs": seqs}, i < 15
        if not gaps or i % 8 == 0:
            yield "consensus", {"seqs": seqs}, i < 15
        if i % 8 == 4 and n > 2 and L > 1:
            j = rng.randrange(L)              # a gap-rich column: all but one sequence show a gap there
            keep = rng.randrange(n)
            heavy = [t if r == keep or t[j] == "-" else t[:j] + "-" + t[j + 1:] for r, t in enumerate(seqs)]
            if all(any(t[c] != "-" for t in heavy) for c in range(L)):
                yield "consensus", {"seqs": heavy}, i < 15
                yield "regex", {"seqs": heavy}, i < 15
        if i % 5 == 1 and not gaps:
            yield "seqlogos", {"seqs": seqs}, i < 12
    # integer count vectors (with empty clonotypes, i.e. zeros) in every integer dtype
    for j, dt in enumerate(["uint8", "int8", "uint16", "int32", "uint32", "uint64", "int64"]):
        for nx in (False, True):
            yield "rankfrequency", {"data": [5, 0, 3, 3, 0, 10, 1, 100], "normalize_x": nx, "normalize_y": j % 2 == 0, "scalex": 1.0, "scaley": 1.0,
                                    "log_x": False, "log_y": False, "dtype": dt}, True
    for i in range(300 * TS if thorough else 30):
        n = rng.randint(1, 40)
        data = [rng.choice([1, 1, 1, 2, 3, 5, 10, 100, 0.5]) for _ in range(n)]
        if i % 3 == 0:
            for _ in range(rng.randint(1, 3)):
                data.insert(rng.randrange(len(data) + 1), None)
        yield "rankfrequency", {"data": data, "normalize_x": i % 2 == 0, "normalize_y": i % 4 < 2, "scalex": rng.choice([1.0, 2.0, 0.1]),
                                "scaley": rng.choice([1.0, 3.0]), "log_x": i % 5 != 0, "log_y": i % 7 != 0}, i < 10
    # every label a singleton (what similarity_clustermap passes when nothing clusters) with min_count >= 2; one label only
    for which in ("hls", "tableau"):
        for mc in (2, 3):
            yield "labels", {"labels": [1, 2, 3, 4, 5], "min_count": mc, "which": which, "np_seed": mc}, True
            yield "labels", {"labels": ["a", "b", "c"], "min_count": mc, "which": which, "np_seed": mc}, True
        yield "labels", {"labels": ["x", "x", "x"], "min_count": 2, "which": which, "np_seed": 1}, True
        yield "labels", {"labels": ["x", "x", "y", "y", "z"], "min_count": 2, "which": which, "np_seed": 1}, True
    for i in range(600 * TS if thorough else 50):
        k = rng.randint(1, 15 if i % 2 else 8)
        pool = [f"L{j}" for j in range(k)] if i % 3 else list(range(k))
        labels = [rng.choice(pool) for _ in range(rng.randint(1, 40))]
        yield "labels", {"labels": labels, "min_count": rng.choice([None, 0, 1, 2, 3, 5, 100]), "which": "hls" if i % 2 else "tableau", "np_seed": i}, i < 20
    for i in range(300 * TS if thorough else 24):
        pts = [[rng.randint(0, 4), rng.randint(0, 3)] for _ in range(rng.randint(1, 40))]
        if i % 3 == 0:
            pts = [[p[0] * 0.5, p[1] * 1.25] for p in pts]
        elif i % 3 == 1:
            pts = [[p[0] - 2, p[1] * 0.5 - 1] for p in pts]          # negative and fractional coordinates
        yield "density", {"pts": pts, "sort": i % 4 != 0}, i < 10
    # integer coordinates, some negative
    yield "density", {"pts": [[0, -1], [1, 0], [0, -1], [2, -3], [1, 0], [1, 0], [-2, 2], [0, 3], [1, -3]], "sort": True}, True
    yield "density", {"pts": [[-1, -1], [-1, -2], [0, -1], [-1, -1], [3, 0], [0, -4]], "sort": False}, True
    # signed zeros: -0.0 and 0.0 are the same coordinate
    yield "density", {"pts": [[0.0, 0.0], [-0.0, 0.0], [0.0, -0.0], [-0.0, -0.0], [1.0, 0.0], [1.0, -0.0], [0.0, 0.0], [2.0, 1.0]], "sort": True}, True
    yield "density", {"pts": [[-0.0, 1.0], [0.0, 1.0], [0.0, 1.0], [-0.0, 2.0], [3.0, 2.0], [3.0, 2.0]], "sort": False}, True
    # long chains: summed distances beyond 255
    for i in range(6 if thorough else 2):
        rows = [[G.rand_string(rng, ["ACDEF", "GHIKL", "MNPQR"][j % 3], 140, 160), G.rand_string(rng, ["STVWY", "ACDEF", "GHIKL"][j % 3], 140, 160)] for j in range(6)]
        rows[1] = [G.mutate(rng, rows[0][0], "ACDEF", 5), G.mutate(rng, rows[0][1], "STVWY", 7)]
        yield "clustermap", {"rows": rows, "single": None, "index": None, "meta": False, "method": "average", "t": 40}, True
    # different receptors whose chains concatenate to the same text when joined with "_", "" or "."
    for j, sep in enumerate(["_", "", "."]):
        rows = [["CAS", "SQ" + sep + "CAS"], ["CAS" + sep + "SQ", "CAS"], ["CASSQ", "CAS"], ["CAS", "CAS"], ["CAW", "SQ" + sep + "CAS"], ["CAS" + sep + "SQ", "CAW"]]
        yield "clustermap", {"rows": rows, "single": None, "index": [None, "string", "shifted"][j], "meta": False, "method": ["average", "single", "complete"][j], "t": 2}, True
    cells = ["CAF", "CAAF", "CAW", "CF", "CASF", "CAAAF", "CASSF", "CAWWF"]
    n_c = 400 * TS if thorough else 16
    for i in range(n_c):
        n = rng.randint(3, 12)
        rows = [[rng.choice(cells), rng.choice(cells)] for _ in range(n)]
        if i % 3 == 2:
            # content that aligns across the alpha/beta boundary when the two chains are concatenated
            xc = ["CASSQET", "CAS", "SQETCAS", "CA", "SQET", "CASCAS", "ETCAS", "CASSQ", "CAS_SQ", "SQ_", "_CAS", "CAS_"]
            rows = [[rng.choice(xc), rng.choice(xc)] for _ in range(n)]
            rows[0], rows[1] = ["CASSQET", "CAS"], ["CAS", "SQETCAS"]
        yield "clustermap", {"rows": rows, "single": [None, None, "alpha", "beta"][i % 4], "index": [None, "string", "shifted"][i % 3],
                             "meta": i % 5 == 0, "method": ["average", "single", "complete"][i % 3], "t": rng.choice([2, 4, 6])}, i < 8
