"""C15 - clusters are the connected components / SciPy clusters of the stated distances."""
import collections
import random

from vmon import gens as G
from vmon.gens import THOROUGH_SCALE as TS
from vmon import oracles as O

PID = "C15"
RULE = ("graph cases: neighbour lists produced by the real search functions (nearest_neighbor / kdtree / hash_based, default and Hamming "
        "mode, incl. duplicates at distance 0, isolated nodes and no neighbour at all) are fed to graph_clustering; for 'cc' two nodes "
        "share a cluster iff union-find connects them, only multi-member clusters are returned, node labels are the caller's (unique "
        "labels; list / ndarray / Series with non-default index); 'fastgreedy'/'multilevel'/'leiden' clusters must lie inside one "
        "component. hier cases: hierarchical_clustering(seqs, linkage_kws, cluster_kws) must equal SciPy linkage/fcluster on the "
        "oracle's condensed Levenshtein vector for method x criterion x t, one label per input in input order, any container/index, "
        "TCR tables with the default metric. identity cases: single linkage at distance t == components of the max_edits=t neighbour "
        "graph. distinct_nontrivial = distinct inputs with at least one multi-member cluster.")
ASSUMPTIONS = ["node labels are unique strings so that rows of the returned table identify positions",
               "SciPy's linkage / fcluster are the reference the property itself names"]
EXHAUSTIVE = {"quick": ["all strings len<=3 over AC as one repertoire, k=1..3, 4 clustering methods"],
              "thorough": ["all strings len<=4 over AC and len<=3 over ACD as repertoires, k=1..3, 4 clustering methods",
                           "hierarchical: 4 methods x 2 criteria x t in 1..4 on fixed witnesses"]}
REQUIRE = {"hier_edited_in_place_sequences": 6, "hier_edited_in_place_calls": 18, "hier_empty_linkage_kws": 1, "graph_lists_over_65536_entries": 1, "graph_synthetic_cases": 1, "hier_explicit_metric_calls": 13, "hier_metric_sequences": 3, "graph_cc_cases": 13, "graph_community_cases": 16, "empty_neighbour_list_cases": 2, "isolated_node_cases": 15,
           "d0_edge_cases": 10, "series_node_label_cases": 8, "hier_cases": 27, "hier_table_cases": 6, "hier_nondefault_index": 8,
           "identity_cases": 10, "identity_multi_member": 9, "hier_t_zero_cases": 3, "asymmetric_neighbour_lists": 3, "duplicate_node_label_cases": 3}
SHARDS = {"quick": 4, "thorough": 16}


def self_test():
    O.self_test()


def _neighbours(ctx, seqs, k, engine, mode, max_returns=None):
    import pyrepseq.nn as nn
    fn = {"nearest_neighbor": nn.nearest_neighbor, "kdtree": nn.kdtree, "hash_based": nn.hash_based}[engine]
    kw = {"max_edits": k}
    if max_returns:
        kw["max_returns"] = max_returns
    if mode == "hamming":
        kw["custom_distance"] = "hamming"
    return ctx.call(fn, list(seqs), **kw)


def k_graph(ctx, seqs, k, engine, mode, method, labels="list", max_returns=None):
    import numpy as np
    import pandas as pd
    import pyrepseq as prs
    nb = _neighbours(ctx, seqs, k, engine, mode, max_returns)
    if not nb.ok:
        ctx.count("search_failed")
        return
    trip = nb.value
    n = len(seqs)
    want_trip = O.neigh_self(seqs, k, "lev" if mode == "lev" else "ham")
    if max_returns:
        # truncated neighbour lists (one orientation of a pair may be missing): the graph is what the search returned;
        # every returned edge is a true neighbour (C11 decides that), connectivity is judged on the returned edges
        got_trip = O.canon_triplets(trip)
        if any(t not in want_trip for t in got_trip):
            ctx.count("search_failed")
            return
        if any((j, i, d) not in got_trip for (i, j, d) in got_trip):
            ctx.count("asymmetric_neighbour_lists")
        want_trip = got_trip
    edges = [(i, j) for (i, j, d) in want_trip]
    root = O.components(n, edges)
    sizes = collections.Counter(root)
    if not want_trip:
        ctx.count("empty_neighbour_list_cases")
    if any(sizes[r] == 1 for r in root):
        ctx.count("isolated_node_cases")
    if any(d == 0 for (_, _, d) in want_trip):
        ctx.count("d0_edge_cases")
    if any(c > 1 for c in sizes.values()):
        ctx.nontriv(["g", seqs, k, mode, method, labels])
    names = [f"n{i}:{s}" for i, s in enumerate(seqs)]
    if labels == "sequences":
        # the caller labels the nodes with the sequences themselves (duplicates allowed): compare label multisets per cluster
        ctx.count("duplicate_node_label_cases")
        out = ctx.call(prs.graph_clustering, trip, list(seqs), clustering=method)
        if not out.ok:
            ctx.violation(f"graph_clustering:{method}:sequence-labels:raised", "raised", out.describe(), None)
            return
        got = collections.defaultdict(collections.Counter)
        for name, c in zip(out.value["node"].tolist(), out.value["cluster"].tolist()):
            got[c][str(name)] += 1
        got_ms = collections.Counter(frozenset(v.items()) for v in got.values())
        comp = collections.defaultdict(collections.Counter)
        for i in range(n):
            if sizes[root[i]] > 1:
                comp[root[i]][seqs[i]] += 1
        want_ms = collections.Counter(frozenset(v.items()) for v in comp.values())
        if method == "cc" and got_ms != want_ms:
            ctx.violation("graph_clustering:cc:sequence-labels:wrong-components", "with sequences as node labels the clusters are not the multi-member components",
                          [dict(x) for x in got_ms], [dict(x) for x in want_ms])
        return
    if labels == "series":
        nodes = pd.Series(names, index=[f"row{i}" for i in range(n)])
        ctx.count("series_node_label_cases")
    elif labels == "series_shifted":
        nodes = pd.Series(names, index=range(100, 100 + n))
        ctx.count("series_node_label_cases")
    elif labels == "ndarray":
        nodes = np.array(names)
    else:
        nodes = list(names)
    ctx.sample(f"graph:{method}", {"seqs": seqs[:8], "n": n, "k": k, "engine": engine, "mode": mode, "method": method, "labels": labels,
                                   "triplets": len(trip)})
    adj = trip if len(seqs) % 2 else (np.array(trip) if len(trip) else trip)
    out = ctx.call(prs.graph_clustering, adj, nodes, clustering=method)
    cls = "empty-neighbours" if not want_trip else "neighbours"
    if method == "cc":
        ctx.count("graph_cc_cases")
    else:
        ctx.count("graph_community_cases")
    if not out.ok:
        ctx.violation(f"graph_clustering:{method}:{cls}:raised:{type(out.exc).__name__}", "graph_clustering raised on a neighbour list from the search functions",
                      out.describe(), None)
        return
    df = out.value
    try:
        ncol = "node" if "node" in df.columns else df.columns[0]
        ccol = "cluster" if "cluster" in df.columns else df.columns[-1]
        got_nodes = [str(x) for x in df[ncol].tolist()]
        got_clusters = df[ccol].tolist()
    except Exception as e:
        ctx.violation(f"graph_clustering:{method}:malformed", f"result has no node/cluster columns: {e}", df, None)
        return
    pos = {name: i for i, name in enumerate(names)}
    if any(x not in pos for x in got_nodes) or len(set(got_nodes)) != len(got_nodes):
        ctx.violation(f"graph_clustering:{method}:labels", "node column does not carry the caller's labels (each at most once)", got_nodes[:10], names[:10])
        return
    members = collections.defaultdict(list)
    for name, c in zip(got_nodes, got_clusters):
        members[c].append(pos[name])
    if any(len(v) < 2 for v in members.values()):
        ctx.violation(f"graph_clustering:{method}:singleton-returned", "a cluster with a single member was returned", dict(members), None)
        return
    if method == "cc":
        want = {frozenset(i for i in range(n) if root[i] == r) for r, c in sizes.items() if c > 1}
        got = {frozenset(v) for v in members.values()}
        if got != want:
            ctx.violation(f"graph_clustering:cc:{cls}:wrong-components", "clusters are not the multi-member connected components",
                          sorted(sorted(x) for x in got), sorted(sorted(x) for x in want))
    else:
        for c, v in members.items():
            if len({root[i] for i in v}) != 1:
                ctx.violation(f"graph_clustering:{method}:crosses-components", "a community contains nodes of different connected components",
                              sorted(v), [root[i] for i in sorted(v)])
                return


def k_graph_synthetic(ctx, n_comp, size, isolated, method, np_seed):
    """A long neighbour list of the shape the search functions return with max_returns (each neighbour pair in one orientation only,
    some in both): n_comp complete groups of `size` nodes plus isolated nodes; more than 2^16 entries."""
    import numpy as np
    import pyrepseq as prs
    rng = random.Random(np_seed)
    n = n_comp * size + isolated
    order = list(range(n))
    rng.shuffle(order)
    comps = [order[c * size:(c + 1) * size] for c in range(n_comp)]
    trip = []
    for comp in comps:
        # a path through the component (every edge a bridge) plus a few chords; each neighbour pair in one random orientation, some in both
        pairs = [(comp[a], comp[a + 1]) for a in range(len(comp) - 1)]
        pairs += [(comp[a], comp[a + 2]) for a in range(0, len(comp) - 2, 5)]
        for i, j in pairs:
            r = rng.random()
            if r < 0.45:
                trip.append((i, j, 1))
            elif r < 0.9:
                trip.append((j, i, 1))
            else:
                trip += [(i, j, 1), (j, i, 1)]
    rng.shuffle(trip)
    ctx.count("graph_synthetic_cases")
    if len(trip) > 65536:
        ctx.count("graph_lists_over_65536_entries")
    ctx.nontriv(["gs", n_comp, size, isolated, method, np_seed])
    ctx.sample("graph_synthetic", {"nodes": n, "entries": len(trip), "components": n_comp, "method": method})
    names = [f"n{i}" for i in range(n)]
    adj = np.array(trip) if np_seed % 2 else trip
    out = ctx.call(prs.graph_clustering, adj, names, clustering=method)
    if not out.ok:
        ctx.violation(f"graph_clustering:{method}:long-list:raised", "graph_clustering raised on a long neighbour list", out.describe(), None)
        return
    df = out.value
    ncol = "node" if "node" in df.columns else df.columns[0]
    ccol = "cluster" if "cluster" in df.columns else df.columns[-1]
    members = collections.defaultdict(set)
    for name, c in zip(df[ncol].tolist(), df[ccol].tolist()):
        members[c].add(int(str(name)[1:]))
    got = {frozenset(v) for v in members.values()}
    want = {frozenset(c) for c in comps}
    if method == "cc":
        if got != want:
            ctx.violation("graph_clustering:cc:long-list:wrong-components", f"{len(got)} clusters returned for {len(want)} multi-member components of a {len(trip)}-entry neighbour list",
                          len(got), len(want))
    else:
        comp_of = {i: k for k, c in enumerate(comps) for i in c}
        if any(len({comp_of.get(i, -1 - i) for i in v}) != 1 for v in got):
            ctx.violation(f"graph_clustering:{method}:long-list:crosses-components", "a community contains nodes of different connected components", None, None)


def _condensed(items, dist):
    m = len(items)
    return [float(dist(items[i], items[j])) for i in range(m) for j in range(i + 1, m)]


def k_hier(ctx, seqs, method, criterion, t, container=None, optimal=True, empty_linkage_kws=False):
    import numpy as np
    import scipy.cluster.hierarchy as hc
    import pyrepseq as prs
    ctx.count("hier_cases")
    if t == 0:
        ctx.count("hier_t_zero_cases")
    if container and container.startswith("series") and container != "series_default":
        ctx.count("hier_nondefault_index")
    d = np.array(_condensed(seqs, O.lev))
    if empty_linkage_kws:
        ctx.count("hier_empty_linkage_kws")
        # which defaults apply to an empty dict is not fixed by the property: SciPy's own (single linkage) and the function's documented
        # defaults (average linkage, optimal ordering) are both accepted; anything else is not a linkage of these distances under either
        out = ctx.call(prs.hierarchical_clustering, list(seqs), linkage_kws={}, cluster_kws=dict(t=t, criterion=criterion))
        alts = [hc.linkage(d), hc.linkage(d, method="average", optimal_ordering=True)]
        ok = False
        if out.ok:
            try:
                L, C = np.asarray(out.value[0], dtype=float), np.asarray(out.value[1])
                ok = any(L.shape == wl.shape and np.allclose(L, wl, rtol=0, atol=1e-12) and C.tolist() == hc.fcluster(wl, t=t, criterion=criterion).tolist() for wl in alts)
            except Exception:
                ok = False
        if not ok:
            ctx.violation("hierarchical_clustering:strings:empty-linkage-kws", "with an empty option dict the result is neither SciPy's default linkage nor the documented default linkage of the pairwise distances",
                          out.describe(), None)
        return
    wl = hc.linkage(d, method=method, optimal_ordering=optimal)
    wc = hc.fcluster(wl, t=t, criterion=criterion)
    if len(set(wc.tolist())) < len(seqs):
        ctx.nontriv(["h", seqs, method, criterion, t])
    ctx.sample(f"hier:{method}", {"seqs": seqs[:8], "method": method, "criterion": criterion, "t": t, "container": container})
    x = G.make_container(container, seqs) if container else list(seqs)
    out = ctx.call(prs.hierarchical_clustering, x, linkage_kws=dict(method=method, optimal_ordering=optimal),
                   cluster_kws=dict(t=t, criterion=criterion))
    _cmp_hier(ctx, out, wl, wc, f"strings:{method}:{criterion}", len(seqs))


def k_hier_metrics(ctx, seqs, weights, method, t, rows=None):
    """The same collection clustered several times in a row with explicit metric objects of one class but other parameters
    (and, for tables, Cdr3Levenshtein with other chain weights): each call is SciPy's clustering of *that* metric's distances."""
    import numpy as np
    import pandas as pd
    import scipy.cluster.hierarchy as hc
    import pyrepseq as prs
    from pyrepseq.metric import WeightedLevenshtein
    from pyrepseq.metric.tcr_metric import Cdr3Levenshtein
    ctx.count("hier_metric_sequences")
    ctx.nontriv(["hm", seqs, rows, weights, method, t])
    ctx.sample("hier_metrics", {"seqs": (seqs or rows)[:6], "weights": weights, "method": method, "t": t})
    for step, w in enumerate(weights):
        if rows is None:
            ins, dele, sub = w
            d = np.array(_condensed(seqs, lambda a, b: O.wlev(a, b, ins, dele, sub)))
            metric = WeightedLevenshtein(insertion_weight=ins, deletion_weight=dele, substitution_weight=sub)
            x = list(seqs)
            n = len(seqs)
        else:
            aw, bw = w
            d = np.array(_condensed(rows, lambda r, q: aw * O.lev(r[0], q[0]) + bw * O.lev(r[1], q[1])))
            metric = Cdr3Levenshtein(alpha_weight=aw, beta_weight=bw)
            x = pd.DataFrame({"CDR3A": [r[0] for r in rows], "CDR3B": [r[1] for r in rows]})
            n = len(rows)
        wl = hc.linkage(d, method=method, optimal_ordering=True)
        wc = hc.fcluster(wl, t=t, criterion="distance")
        out = ctx.call(prs.hierarchical_clustering, x, metric=metric, linkage_kws=dict(method=method, optimal_ordering=True),
                       cluster_kws=dict(t=t, criterion="distance"))
        ctx.count("hier_explicit_metric_calls")
        _cmp_hier(ctx, out, wl, wc, f"explicit-metric:step{min(step, 1)}", n)


def k_hier_edited(ctx, seqs, edits, method, t, container, explicit_metric):
    """The caller's own container clustered, edited in place (same length), clustered again with the same metric argument:
    every call is SciPy's clustering of the distances of the container's PRESENT content."""
    import numpy as np
    import pandas as pd
    import scipy.cluster.hierarchy as hc
    import pyrepseq as prs
    from pyrepseq.metric import Levenshtein
    ctx.count("hier_edited_in_place_sequences")
    ctx.nontriv(["he", seqs, edits, method, t, container, explicit_metric])
    ctx.sample("hier_edited", {"seqs": seqs[:6], "edits": edits, "container": container})
    cur = list(seqs)
    x = cur if container == "list" else np.array(cur, dtype=object) if container == "ndarray" else pd.Series(cur, dtype=object)
    if container == "list":
        x = list(cur)
    metric = Levenshtein() if explicit_metric else None
    for step in range(len(edits) + 1):
        if step:
            i, new = edits[step - 1]
            if container == "series":
                x.iloc[i] = new
            else:
                x[i] = new
            cur[i] = new
        d = np.array(_condensed(cur, O.lev))
        wl = hc.linkage(d, method=method, optimal_ordering=True)
        wc = hc.fcluster(wl, t=t, criterion="distance")
        kw = dict(metric=metric) if explicit_metric else {}
        out = ctx.call(prs.hierarchical_clustering, x, linkage_kws=dict(method=method, optimal_ordering=True), cluster_kws=dict(t=t, criterion="distance"), **kw)
        ctx.count("hier_edited_in_place_calls")
        _cmp_hier(ctx, out, wl, wc, f"same-object-edited:step{min(step, 1)}", len(cur))


def _cmp_hier(ctx, out, wl, wc, key, n):
    import numpy as np
    if not out.ok:
        ctx.violation(f"hierarchical_clustering:{key}:raised", "raised", out.describe(), None)
        return
    try:
        L, C = out.value
        L, C = np.asarray(L, dtype=float), np.asarray(C)
    except Exception as e:
        ctx.violation(f"hierarchical_clustering:{key}:malformed", f"did not return (linkage, cluster): {e}", out.value, None)
        return
    if C.shape != (n,):
        ctx.violation(f"hierarchical_clustering:{key}:labels-shape", "not one cluster label per input", list(C.shape), [n])
        return
    if L.shape != wl.shape or not np.allclose(L, wl, rtol=0, atol=1e-12):
        ctx.violation(f"hierarchical_clustering:{key}:linkage", "linkage differs from SciPy's linkage of the pairwise distances", L, wl)
        return
    if C.tolist() != wc.tolist():
        ctx.violation(f"hierarchical_clustering:{key}:clusters", "flat clusters differ from SciPy's fcluster (input order)", C, wc)


def k_hier_table(ctx, rows, cols, method, t, index=None, legacy=False):
    import numpy as np
    import pandas as pd
    import scipy.cluster.hierarchy as hc
    import pyrepseq as prs
    ctx.count("hier_table_cases")

    def dist(r, s):
        v = 0
        if "A" in cols:
            v += O.lev(r[0], s[0])
        if "B" in cols:
            v += O.lev(r[1], s[1])
        return v
    d = np.array(_condensed(rows, dist))
    wl = hc.linkage(d, method=method, optimal_ordering=True)
    wc = hc.fcluster(wl, t=t, criterion="distance")
    ctx.nontriv(["ht", rows, cols, method, t])
    ctx.sample("hier_table", {"rows": rows[:5], "cols": cols, "method": method, "t": t, "legacy": legacy})
    if legacy:
        x = ([r[0] for r in rows], [r[1] for r in rows])
    else:
        data = {}
        if "A" in cols:
            data["CDR3A"] = [r[0] for r in rows]
        if "B" in cols:
            data["CDR3B"] = [r[1] for r in rows]
        x = pd.DataFrame(data)
        x["meta"] = range(len(rows))
        x["TRBJ"] = [None if i % 3 == 0 else "TRBJ2-1*01" for i in range(len(rows))]      # unresolved J calls: not read by the CDR3 metrics
        if index == "string":
            x.index = [f"k{i}" for i in range(len(rows))]
            ctx.count("hier_nondefault_index")
        elif index == "shifted":
            x.index = range(3, 3 + len(rows))
            ctx.count("hier_nondefault_index")
    out = ctx.call(prs.hierarchical_clustering, x, linkage_kws=dict(method=method, optimal_ordering=True),
                   cluster_kws=dict(t=t, criterion="distance"))
    _cmp_hier(ctx, out, wl, wc, f"table-{cols}{'-legacy' if legacy else ''}", len(rows))


def k_identity(ctx, seqs, t):
    """single linkage at distance t == connected components of the max_edits=t neighbour graph (real functions on both sides)."""
    import pyrepseq as prs
    ctx.count("identity_cases")
    n = len(seqs)
    h = ctx.call(prs.hierarchical_clustering, list(seqs), linkage_kws=dict(method="single", optimal_ordering=False),
                 cluster_kws=dict(t=t, criterion="distance"))
    nb = ctx.call(prs.nearest_neighbor, list(seqs), max_edits=t)
    if not (h.ok and nb.ok):
        ctx.violation("identity:raised", "hierarchical_clustering or nearest_neighbor raised", [h.describe(), nb.describe()], None)
        return
    names = [f"n{i}" for i in range(n)]
    g = ctx.call(prs.graph_clustering, nb.value, names, clustering="cc")
    if not g.ok:
        ctx.violation("identity:graph_clustering:raised", "graph_clustering raised on the neighbour list", g.describe(), None)
        return
    hp = {s for s in O.partition_of(list(h.value[1])) if len(s) > 1}
    members = collections.defaultdict(set)
    for name, c in zip(g.value["node"].tolist(), g.value["cluster"].tolist()):
        members[c].add(int(str(name)[1:]))
    gp = {frozenset(v) for v in members.values()}
    root = O.components(n, [(i, j) for (i, j, d) in O.neigh_self(seqs, t)])
    op = {s for s in O.partition_of(root) if len(s) > 1}
    if op:
        ctx.count("identity_multi_member")
        ctx.nontriv(["id", seqs, t])
    ctx.sample("identity", {"seqs": seqs[:8], "n": n, "t": t, "multi_member_clusters": len(op)})
    if hp != op or gp != op:
        ctx.violation("identity:single-linkage-vs-components", "single linkage at t and the components of the max_edits=t graph differ (or differ from the oracle)",
                      {"hierarchical": sorted(sorted(x) for x in hp), "graph": sorted(sorted(x) for x in gp)}, sorted(sorted(x) for x in op))


KINDS = {"graph": k_graph, "hier": k_hier, "hier_table": k_hier_table, "identity": k_identity, "hier_metrics": k_hier_metrics, "hier_edited": k_hier_edited, "graph_synthetic": k_graph_synthetic}
METHODS = ["cc", "fastgreedy", "multilevel", "leiden"]


def generate(tier, seed):
    cells0 = ["CAF", "CAAF", "CAW", "CF", "CASF", "CAAAF"]
    rng = random.Random(15000 + seed)
    thorough = tier == "thorough"
    us = [G.universe("AC", 3)] + ([G.universe("AC", 4), G.universe("ACD", 3)] if thorough else [])
    for u in us:
        for k in (1, 2, 3):
            for m in METHODS:
                yield "graph", {"seqs": u, "k": k, "engine": "nearest_neighbor", "mode": "lev", "method": m}, True
    # no neighbour at all (D15 class), isolated nodes, duplicates
    for m in METHODS:
        yield "graph", {"seqs": ["CAAAA", "CDDDDDDD", "CWWW"], "k": 1, "engine": "nearest_neighbor", "mode": "lev", "method": m}, True
    yield "graph", {"seqs": ["CAAAA"], "k": 1, "engine": "kdtree", "mode": "lev", "method": "cc"}, True
    yield "graph", {"seqs": ["CAAA", "CAAA", "CDDD", "CAAD", "CWWWW", "CAAA"], "k": 1, "engine": "hash_based", "mode": "hamming", "method": "cc", "labels": "series"}, True
    for dup in (["CAAA", "CAAA", "CWWWW", "CDDDD", "CDDDD", "CDDDD"], ["CA", "CA"], ["CAAA", "CAAA", "CAAD", "CWW", "CWW"]):
        yield "graph", {"seqs": dup, "k": 1, "engine": "nearest_neighbor", "mode": "lev", "method": "cc", "labels": "sequences"}, True
    n_g = 2500 * TS if thorough else 150
    pools = [G.universe("AC", 5), G.universe("ACD", 4), G.universe("AWY", 3)]
    for i in range(n_g):
        if i % 4 == 0:
            seqs = G.repertoire(rng, rng.randint(5, 60), lo=3, hi=8)
        else:
            seqs = G.small_multiset(rng, pools[i % 3], 1, 30)
        eng = ["nearest_neighbor", "kdtree", "hash_based"][i % 3]
        k = rng.choice([1, 1, 2]) if eng == "hash_based" else rng.choice([1, 2, 3])
        if eng == "hash_based" and k == 2 and max(len(s) for s in seqs) > 5:
            k = 1
        p = {"seqs": seqs, "k": k, "engine": eng, "mode": "hamming" if i % 5 == 0 else "lev", "method": METHODS[i % 4] if i % 2 else "cc",
             "labels": ["list", "series", "ndarray", "series_shifted", "sequences"][i % 5]}
        if eng == "kdtree" and i % 2 == 0:
            p["max_returns"] = 1 + (i // 6) % 2
        yield "graph", p, i < 50
    yield "graph_synthetic", {"n_comp": 2400, "size": 25, "isolated": 50, "method": "cc", "np_seed": 15500 + seed}, True
    if thorough:
        yield "graph_synthetic", {"n_comp": 9000, "size": 16, "isolated": 200, "method": "cc", "np_seed": 15501 + seed}, True
        yield "graph_synthetic", {"n_comp": 3000, "size": 30, "isolated": 10, "method": "leiden", "np_seed": 15502 + seed}, True
    wit = ["CASSF", "CASF", "CAWF", "CASSLF", "CASSF", "CDDDDDF", "CAW", "CDDDDF"]
    # option dictionaries given but empty: SciPy's own defaults apply (single linkage)
    for t in (1, 2):
        yield "hier", {"seqs": wit, "method": "single", "criterion": "distance", "t": t, "empty_linkage_kws": True}, True
    for method in ("single", "complete", "average", "weighted"):
        for crit, ts in (("distance", [0, 0.5, 1, 2, 3, 4] if thorough else [0, 1, 3]), ("maxclust", [1, 2, 3, 4] if thorough else [2, 3])):
            for t in ts:
                yield "hier", {"seqs": wit, "method": method, "criterion": crit, "t": t}, True
    for c in ("tuple", "ndarray_U", "series_shifted", "series_string", "series_permuted"):
        yield "hier", {"seqs": wit, "method": "average", "criterion": "distance", "t": 2, "container": c}, True
    n_h = 1500 * TS if thorough else 80
    for i in range(n_h):
        seqs = G.small_multiset(rng, pools[i % 3], 2, 25) if i % 3 else G.repertoire(rng, rng.randint(3, 40), lo=3, hi=8)
        if len(seqs) == 2 and i % 5 == 1:
            seqs.append("CA")
        cont = [None, "ndarray_U", "series_shifted", "series_string", "tuple"][i % 5]
        if cont == "tuple" and len(seqs) == 2:
            cont = None
        yield "hier", {"seqs": seqs, "method": ["single", "complete", "average", "weighted"][i % 4], "criterion": ["distance", "maxclust"][i % 2],
                       "t": rng.choice([0, 1, 2, 3, 5, 1.5]) if i % 2 == 0 else rng.choice([1, 2, 3, 5]), "container": cont, "optimal": i % 3 != 0}, i < 30
    # sequences a few hundred letters long: pairwise distances beyond 255
    for i in range(8 if thorough else 2):
        base = G.rand_string(rng, "ACGT", 280, 320)
        other = G.rand_string(rng, "DEFH", 280, 320)
        seqs = [base, G.mutate(rng, base, "ACGT", 3), other, G.mutate(rng, other, "DEFH", 4), G.mutate(rng, base, "ACGT", 6)]
        yield "hier", {"seqs": seqs, "method": ["average", "single"][i % 2], "criterion": "distance", "t": [6, 20][i % 2]}, True
    # one collection, several metric objects of the same class with other parameters, one after the other
    for i in range(40 * TS if thorough else 6):
        seqs = G.small_multiset(rng, pools[i % 3], 3, 12)
        ws = [[1, 1, 1], [3, 3, 1], [1, 1, 1], [1, 2, 1]] if i % 2 == 0 else [[2, 2, 3], [1, 1, 1], [2, 2, 3]]
        yield "hier_metrics", {"seqs": seqs, "weights": ws, "method": ["average", "single", "complete"][i % 3], "t": rng.choice([1, 2, 4])}, i < 4
        rows = [[rng.choice(cells0), rng.choice(cells0)] for _ in range(rng.randint(3, 9))]
        yield "hier_metrics", {"seqs": None, "rows": rows, "weights": [[1, 1], [3, 1], [1, 1], [1, 2]], "method": "average", "t": rng.choice([2, 4])}, i < 3
    # the same container object clustered, edited in place, clustered again (threshold scans over a collection the caller keeps editing)
    fam = ["CASSF", "CASF", "CAWSVGF", "CAWSVGQF", "CATTF", "CASSLGF"]
    for ci, cont in enumerate(("list", "ndarray", "series")):
        for em in (False, True):
            yield "hier_edited", {"seqs": fam, "edits": [[0, "CAWSVF"], [5, "W"]], "method": ["single", "average", "complete"][ci], "t": 1 + ci,
                                  "container": cont, "explicit_metric": em}, True
    for i in range(30 * TS if thorough else 4):
        seqs = G.small_multiset(rng, pools[i % 3], 4, 10)
        edits = [[rng.randrange(len(seqs)), rng.choice(pools[(i + 1) % 3])] for _ in range(2)]
        yield "hier_edited", {"seqs": seqs, "edits": edits, "method": ["average", "single"][i % 2], "t": rng.choice([1, 2, 3]),
                              "container": ["list", "ndarray", "series"][i % 3], "explicit_metric": i % 2 == 0}, False
    # paired tables whose chains are each at most 255 letters while alpha + beta distances exceed 255
    for j in range(4 if thorough else 2):
        rows = [[G.rand_string(rng, ["ACDEF", "GHIKL", "MNPQR"][r % 3], 135, 200), G.rand_string(rng, ["STVWY", "ACDEF", "GHIKL"][r % 3], 135, 200)] for r in range(5)]
        rows[1] = [G.mutate(rng, rows[0][0], "ACDEF", 4), G.mutate(rng, rows[0][1], "STVWY", 5)]
        yield "hier_table", {"rows": rows, "cols": "AB", "method": ["average", "single"][j % 2], "t": [6, 40][j % 2], "index": [None, "string"][j % 2]}, True
    cells = ["CAF", "CAAF", "CAW", "CF", "CASF", "CAAAF"]
    for i in range(300 * TS if thorough else 24):
        rows = [[rng.choice(cells), rng.choice(cells)] for _ in range(rng.randint(3, 14))]
        cols = ["AB", "A", "B"][i % 3]
        yield "hier_table", {"rows": rows, "cols": cols, "method": ["average", "single", "complete"][i % 3], "t": rng.choice([1, 2, 4]),
                             "index": [None, "string", "shifted"][i % 3], "legacy": cols == "AB" and i % 6 == 0}, i < 12
    for i in range(800 * TS if thorough else 50):
        seqs = G.small_multiset(rng, pools[i % 3], 2, 30) if i % 3 else G.repertoire(rng, rng.randint(4, 50), lo=3, hi=8)
        yield "identity", {"seqs": seqs, "t": rng.choice([1, 1, 2, 3])}, i < 20
