"""C10 - search results do not depend on output format or input container; invalid arguments are rejected."""
import random

from vmon import gens as G
from vmon.gens import THOROUGH_SCALE as TS
from vmon import oracles as O
from vmon import search as S

PID = "C10"
RULE = ("format cases: one logical call T=f(list(seqs),...,'triplets'); the coo_matrix and ndarray outputs of the "
        "same call must have shape (len(seqs), len(seqs2) or len(seqs)), pairwise distinct stored coordinates, d at "
        "[r,q] for every (q,r,d) in T and 0 elsewhere, ndarray == coo.toarray(). container cases: the same sequences "
        "as list/tuple/ndarray(U,object)/Series(default, shifted, permuted, string, duplicated index) for seqs and "
        "seqs2 must give the oracle triplets (positions are ordinals). invalid cases: each invalid-argument class "
        "of the statement must raise. distinct_nontrivial = distinct (engine, input, container/format) with non-empty result.")
ASSUMPTIONS = ["a tuple of exactly two sequences is not used (documented legacy meaning elsewhere in the package)",
               "True, 2.0 and numpy integers as max_edits/n_cpu are in neither the valid nor the invalid class"]
EXHAUSTIVE = {"quick": ["4 engines x 9 containers x {default,hamming} on fixed witnesses", "all invalid-argument classes x 4 engines"],
              "thorough": ["4 engines x 9 containers x 9 containers(seqs2) x {default,hamming}", "all invalid-argument classes x 4 engines"]}
REQUIRE = {"invalid_combined_with_valid_options": 300, "format_cases": 36, "container_cases": 100, "container_series_nondefault_index": 40, "invalid_cases": 53,
           "matrix_cells_checked": 1000, "cross_shape_nonsquare": 10, "d0_triplets_in_matrix_cases": 5, "asymmetric_triplet_sets": 3}
SHARDS = {"quick": 6, "thorough": 16}


def self_test():
    O.self_test()


def _expected(seqs, seqs2, k, mode):
    import collections
    if mode in ("custom", "customf"):          # callable custom distance 2*lev (or 0.5*lev: non-integer values), infinite radius
        base = O.neigh_self(seqs, k) if seqs2 is None else O.neigh_cross(seqs2, seqs, k)
        f = 2 if mode == "custom" else 0.5
        return collections.Counter({(i, j, O.num(f * d)): c for (i, j, d), c in base.items()})
    m = "lev" if mode == "lev" else "ham"
    if seqs2 is None:
        return O.neigh_self(seqs, k, m)
    return O.neigh_cross(seqs2, seqs, k, m)


def _kw(k, mode, seqs2=None, out=None):
    kw = {"max_edits": k}
    if mode == "hamming":
        kw["custom_distance"] = "hamming"
    if mode == "custom":
        from vmon import dists
        kw["custom_distance"] = dists.lev2
    if mode == "customf":
        from vmon import dists
        kw["custom_distance"] = dists.halflev
    if seqs2 is not None:
        kw["seqs2"] = seqs2
    if out:
        kw["output_type"] = out
    return kw


def k_formats(ctx, engine, seqs, k, mode, seqs2=None, max_returns=None):
    import numpy as np
    import scipy.sparse as sp
    fn = S.engine(engine)
    exp = _expected(seqs, seqs2, k, mode)
    ctx.count("format_cases")
    if exp:
        ctx.nontriv(["F", engine, seqs, seqs2, k, mode, max_returns])
    ctx.sample("formats" + (":max_returns" if max_returns else ""), {"engine": engine, "seqs": seqs[:8], "seqs2": seqs2 and seqs2[:8], "k": k, "mode": mode,
                                                                   "max_returns": max_returns})
    if max_returns:
        # truncated neighbour lists are not symmetric: the matrix orientation becomes observable in self mode.
        # The triplets themselves are C11's subject; here only "the matrix encodes exactly the triplets" is decided.
        _real_kw = _kw

        def _kw_mr(k_, mode_, seqs2_=None, out_=None):
            d = _real_kw(k_, mode_, seqs2_, out_)
            d["max_returns"] = max_returns
            return d
        kwf = _kw_mr
        t = ctx.call(fn, list(seqs), **kwf(k, mode, None, "triplets"))
        if not t.ok:
            ctx.violation(f"{engine}:formats-max_returns:raised", "raised", t.describe(), None)
            return
        T = O.canon_triplets(t.value)
        if any((j, i, d) not in T for (i, j, d) in T):
            ctx.count("asymmetric_triplet_sets")
    else:
        kwf = _kw
        t = ctx.call(fn, list(seqs), **_kw(k, mode, seqs2 and list(seqs2), "triplets"))
        if not S.expect_triplets(ctx, t, exp, engine, f"formats-triplets-{mode}"):
            return
        T = O.canon_triplets(t.value)
    shape = (len(seqs), len(seqs) if seqs2 is None else len(seqs2))
    if shape[0] != shape[1]:
        ctx.count("cross_shape_nonsquare")
    if any(d == 0 for (_, _, d) in T):
        ctx.count("d0_triplets_in_matrix_cases")
    c = ctx.call(fn, list(seqs), **kwf(k, mode, seqs2 and list(seqs2), "coo_matrix"))
    key = f"{engine}:coo_matrix:{'cross' if seqs2 is not None else 'self'}"
    dense_from_coo = None
    if not c.ok:
        ctx.violation(key + ":raised", "coo_matrix output raised", c.describe(), None)
    elif not sp.issparse(c.value):
        ctx.violation(key + ":type", "coo_matrix output is not a sparse matrix", type(c.value).__name__, "scipy sparse")
    else:
        m = c.value.tocoo()
        if tuple(m.shape) != shape:
            ctx.violation(key + ":shape", "coo_matrix has the wrong shape", list(m.shape), list(shape))
        else:
            coords = list(zip(m.row.tolist(), m.col.tolist()))
            if len(set(coords)) != len(coords):
                ctx.violation(key + ":duplicate-coordinates", "a matrix entry is stored (accumulated) more than once",
                              sorted(coords)[:20], "pairwise distinct coordinates")
            dense_from_coo = m.toarray()
            want = np.zeros(shape, dtype=float)
            for (q, r, d), cnt in T.items():
                want[r, q] = d
            ctx.count("matrix_cells_checked", int(want.size))
            if not np.array_equal(np.asarray(dense_from_coo, dtype=float), want):
                bad = np.argwhere(np.asarray(dense_from_coo, dtype=float) != want)[:5].tolist()
                ctx.violation(key + ":cells", f"matrix does not hold d at [r,q] / 0 elsewhere; first differing cells {bad}",
                              dense_from_coo, want)
    a = ctx.call(fn, list(seqs), **kwf(k, mode, seqs2 and list(seqs2), "ndarray"))
    key = f"{engine}:ndarray:{'cross' if seqs2 is not None else 'self'}"
    if not a.ok:
        ctx.violation(key + ":raised", "ndarray output raised", a.describe(), None)
    elif not isinstance(a.value, np.ndarray):
        ctx.violation(key + ":type", "ndarray output is not a numpy array", type(a.value).__name__, "ndarray")
    elif dense_from_coo is not None and (a.value.shape != dense_from_coo.shape or not np.array_equal(a.value, dense_from_coo)):
        ctx.violation(key + ":differs-from-coo", "ndarray output differs from coo_matrix.toarray()", a.value, dense_from_coo)


def k_container(ctx, engine, seqs, k, mode, container, seqs2=None, container2=None):
    fn = S.engine(engine)
    exp = _expected(seqs, seqs2, k, mode)
    ctx.count("container_cases")
    if container.startswith("series") and container != "series_default" or (container2 or "").startswith("series_") and container2 != "series_default":
        ctx.count("container_series_nondefault_index")
    if exp:
        ctx.nontriv(["C", engine, seqs, seqs2, k, mode, container, container2])
    ctx.sample(f"container:{container}", {"engine": engine, "seqs": seqs[:8], "container": container, "container2": container2})
    a = G.make_container(container, seqs)
    b = G.make_container(container2, seqs2) if seqs2 is not None else None
    out = ctx.call(fn, a, **_kw(k, mode, b))
    tag = f"container-{container}" + (f"+{container2}" if container2 else "")
    S.expect_triplets(ctx, out, exp, engine, f"{tag}-{mode}")


def _invalid_args(cls, variant):
    """(args, kwargs) of an invalid call; `variant` selects the representative."""
    import numpy as np
    import pandas as pd
    good = ["CAAA", "CADA", "CAAK", "CDDD"]
    if cls == "empty":
        return ([[], np.array([], dtype=str), pd.Series([], dtype=object), ()][variant % 4],), {}
    if cls == "non-string":
        bad = [[5, "CAAA"], ["CAAA", None], ["CAAA", b"CADA"], [["C", "A"], "CAAA"], ["CAAA", 3.5, "CADA"],
               pd.Series(["CAAA", 7], dtype=object), np.array(["CAAA", 7], dtype=object)][variant % 7]
        return (bad,), {}
    if cls == "non-string-seqs2":
        bad = [[5, "CAAA"], ["CAAA", None], ["CAAA", b"CADA"]][variant % 3]
        return (good,), {"seqs2": bad}
    if cls == "max_edits":
        return (good,), {"max_edits": [0, -1, 1.5, "1", None, -100][variant % 6]}
    if cls == "n_cpu":
        return (good,), {"n_cpu": [0, -3, -1][variant % 3]}
    if cls == "output_type":
        return (good,), {"output_type": ["dense", "", None, "TRIPLETS", "matrix"][variant % 5]}
    raise KeyError(cls)


def _first_mismatches(a, b):
    return sum(x != y for x, y in zip(a, b)) + abs(len(a) - len(b))


def k_invalid(ctx, engine, cls, variant, combo=None):
    fn = S.engine(engine)
    args, kwargs = _invalid_args(cls, variant)
    ctx.count("invalid_cases")
    if combo:
        # the same invalid argument next to other, valid, options (each search mode has its own dispatch path)
        ctx.count("invalid_combined_with_valid_options")
        extra = {"hamming": {"custom_distance": "hamming"}, "callable": {"custom_distance": _first_mismatches, "max_custom_distance": 2},
                 "seqs2": {"seqs2": ["CAAA", "CAKA"]}, "hamming+seqs2": {"custom_distance": "hamming", "seqs2": ["CAAA", "CAKA"]}}[combo]
        if combo.endswith("seqs2") and engine not in CROSS_ENGINES:
            extra = {k: v for k, v in extra.items() if k != "seqs2"}
        kwargs = dict(kwargs, **{k: v for k, v in extra.items() if k not in kwargs})
    ctx.nontriv(["I", engine, cls, variant])
    ctx.sample(f"invalid:{cls}", {"engine": engine, "class": cls, "args": args, "kwargs": kwargs})
    out = ctx.call(fn, *args, **kwargs)
    if out.ok:
        ctx.violation(f"{engine}:invalid-{cls}:accepted", f"invalid argument ({cls}) produced a result instead of an error",
                      out.value, "an exception", {"args": args, "kwargs": kwargs})


KINDS = {"formats": k_formats, "container": k_container, "invalid": k_invalid}
ENGINES = ["symdel", "nearest_neighbor", "hash_based", "kdtree"]
CROSS_ENGINES = ["symdel", "nearest_neighbor"]
W1 = ["CAAA", "CADA", "CAAAD", "CAAA", "CDDD", "CAAK", "CAA"]
W2 = ["CAAK", "CAAA", "CDD", "CADAA", "CAAA"]


def generate(tier, seed):
    rng = random.Random(10000 + seed)
    thorough = tier == "thorough"
    for mode in ("lev", "hamming", "custom"):
        for m in (1, 2):
            yield "formats", {"engine": "kdtree", "seqs": W1 + ["CAAD", "CADD", "CAKA"], "k": 2, "mode": mode, "max_returns": m}, True
    # result sizes that are exact multiples of 2^16 triplets (256 clone reads against 256 one-mismatch reads), and one more / one less
    for eng, (na, nb) in (("symdel", (256, 256)), ("nearest_neighbor", (512, 256)), ("symdel", (257, 255))):
        yield "formats", {"engine": eng, "seqs": ["CASSLGF"] * na, "seqs2": ["CASSLGW"] * (nb - 1) + ["CASSLGF"], "k": 1, "mode": "lev"}, True
    if thorough:
        # query positions beyond 2^16 with a short reference, and the reverse
        big = G.repertoire(random.Random(10700 + seed), 70001, families=20000)
        small = [big[-1], big[-5], big[66000], big[3], G.mutate(rng, big[-2], G.AA, 1)] * 8
        yield "formats", {"engine": "symdel", "seqs": small, "seqs2": big, "k": 1, "mode": "lev"}, True
        yield "formats", {"engine": "symdel", "seqs": big, "seqs2": small, "k": 1, "mode": "lev"}, True
    for eng in ENGINES:
        for c in G.CONTAINERS:
            yield "container", {"engine": eng, "seqs": W1, "k": 1, "mode": "custom", "container": c}, True
    for eng in CROSS_ENGINES:
        for c in ("series_shifted", "series_string", "ndarray_U"):
            yield "container", {"engine": eng, "seqs": W1, "seqs2": W2, "k": 1, "mode": "custom", "container": c, "container2": c}, True
    for eng in ENGINES:
        for mode in ("lev", "hamming", "customf"):
            yield "formats", {"engine": eng, "seqs": W1, "k": 1, "mode": mode}, True
            yield "formats", {"engine": eng, "seqs": W1, "k": 2, "mode": mode}, True
            for c in G.CONTAINERS:
                yield "container", {"engine": eng, "seqs": W1, "k": 1, "mode": mode, "container": c}, True
    for eng in ("SymdelDB.lookup", "LookupDB.lookup"):
        for mode in ("lev", "hamming", "custom"):
            yield "formats", {"engine": eng, "seqs": W1, "seqs2": W2, "k": 1, "mode": mode}, True
            yield "formats", {"engine": eng, "seqs": W2, "seqs2": W1, "k": 2, "mode": mode}, True
            for c in ("series_shifted", "series_permuted", "ndarray_O", "tuple"):
                yield "container", {"engine": eng, "seqs": W1, "seqs2": W2, "k": 1, "mode": mode, "container": c, "container2": c}, True
    for eng in CROSS_ENGINES:
        for mode in ("lev", "hamming"):
            yield "formats", {"engine": eng, "seqs": W1, "seqs2": W2, "k": 1, "mode": mode}, True
            yield "formats", {"engine": eng, "seqs": W2, "seqs2": W1, "k": 2, "mode": mode}, True
            for c in G.CONTAINERS:
                c2s = G.CONTAINERS if thorough else [G.CONTAINERS[(G.CONTAINERS.index(c) * 2 + 3) % len(G.CONTAINERS)], "list", c]
                for c2 in c2s:
                    yield "container", {"engine": eng, "seqs": W1, "seqs2": W2, "k": 1, "mode": mode,
                                        "container": c, "container2": c2}, True
    for eng in ENGINES:
        for cls, nvar in (("empty", 4), ("non-string", 7), ("max_edits", 6), ("n_cpu", 3), ("output_type", 5)):
            for v in range(nvar):
                yield "invalid", {"engine": eng, "cls": cls, "variant": v}, True
    for eng in CROSS_ENGINES:
        for v in range(3):
            yield "invalid", {"engine": eng, "cls": "non-string-seqs2", "variant": v}, True
    for eng in ENGINES:
        for combo in ("hamming", "callable", "seqs2", "hamming+seqs2"):
            for cls, nvar in (("empty", 4), ("non-string", 7), ("max_edits", 6), ("n_cpu", 3), ("output_type", 5)):
                for v in range(nvar):
                    yield "invalid", {"engine": eng, "cls": cls, "variant": v, "combo": combo}, True
    pools = [G.universe("AC", 5), G.universe("ACD", 4), G.universe("AWY", 3)]
    n_rand = 4000 * TS if thorough else 260
    for i in range(n_rand):
        pool = pools[i % len(pools)]
        seqs = G.small_multiset(rng, pool, 1, 30)
        if len(seqs) == 2:
            seqs.append(rng.choice(pool))
        k = rng.choice([1, 1, 2])
        mode = rng.choice(["lev", "lev", "hamming", "custom", "customf"])
        cross = i % 3 == 0
        eng = rng.choice(CROSS_ENGINES + ["SymdelDB.lookup", "LookupDB.lookup"] if cross else ENGINES)
        seqs2 = None
        if cross:
            seqs2 = G.small_multiset(rng, pool, 1, 20)
            if len(seqs2) == 2:
                seqs2.append(rng.choice(pool))
        if eng == "hash_based" and k == 2 and max(len(s) for s in seqs) > 5:
            k = 1
        if eng == "LookupDB.lookup" and k == 2 and max(len(s) for s in seqs2) > 5:
            k = 1
        if i % 2 == 0:
            p = {"engine": eng, "seqs": seqs, "seqs2": seqs2, "k": k, "mode": mode}
            if eng == "kdtree" and i % 4 == 0:
                p["max_returns"] = rng.choice([1, 2, 3])
            yield "formats", p, i < 60
        else:
            c = rng.choice(G.CONTAINERS)
            p = {"engine": eng, "seqs": seqs, "k": k, "mode": mode, "container": c}
            if cross:
                p["seqs2"] = seqs2
                p["container2"] = rng.choice(G.CONTAINERS)
            yield "container", p, i < 60
