"""C11 - kdtree results are independent of worker count, chunking and compression; max_returns."""
import collections
import os
import random
import time

from vmon import dists as D
from vmon import gens as G
from vmon.gens import THOROUGH_SCALE as TS
from vmon import oracles as O
from vmon import search as S

PID = "C11"
RULE = ("config cases: kdtree(seqs, k, n_cpu, compression, mode) must equal the double-loop oracle (hence the "
        "single-process uncompressed run) for len(seqs) in 1..24 x n_cpu in 1..16 x compression in {1,2,3,5,7,20,21,25} x "
        "mode in {default, hamming, custom}; pool workers inherit (fork) a logging wrapper around the per-query work "
        "function, and the offline checker demands every query index be handled exactly once and counts distinct "
        "index->worker partitions (schedules); optional injected sleeps between tasks vary the schedule. max_returns "
        "cases: per query count=min(m,true), all reported true with exact d, max reported d <= min omitted d. "
        "distinct_nontrivial = distinct (input, configuration) with a non-empty expected neighbour set.")
ASSUMPTIONS = ["multiprocessing start method is fork (Linux default), as the module-level parameter block requires",
               "amino-acid alphabet; custom distances are symmetric with d(x,x)=0"]
EXHAUSTIVE = {"quick": ["Latin-square sample of the len x n_cpu x compression x mode grid"],
              "thorough": ["full grid len(seqs) 1..24 x n_cpu 1..16 x 8 compressions (mode rotating), plus n_cpu>len for every len<=8"]}
WAIVE_IF = {"worker_log_unavailable": ["worker_events", "exactly_once_checked_calls"]}
REQUIRE = {"same_array_object_cases": 6, "same_array_object_calls": 20, "big_config_cases": 1, "config_cases": 28, "multi_process_calls": 24, "ncpu_gt_len_cases": 5, "chunk_not_dividing_cases": 10,
           "compression_gt1_cases": 20, "worker_events": 200, "exactly_once_checked_calls": 28,
           "max_returns_cases": 15, "max_returns_truncating": 10, "mode_hamming": 9, "mode_custom": 9}
SHARDS = {"quick": 8, "thorough": 16}

_LOG = {"fd": None, "path": None, "callid": 0, "delay": 0.0, "installed": False, "partitions": set()}


def self_test():
    O.self_test()


def _install_worker_log():
    """Replace nn._cal_levenshtein / nn._cal_custom_dist by logging wrappers *before* any pool forks.
    Pool pickles them by qualified name; forked children resolve the same wrapper."""
    if _LOG["installed"]:
        return
    import functools
    import tempfile
    import pyrepseq.nn as nn
    fd, path = tempfile.mkstemp(prefix="vmon-c11-", suffix=".log")
    os.close(fd)
    _LOG["path"] = path
    _LOG["fd"] = os.open(path, os.O_WRONLY | os.O_APPEND)

    def wrap(orig):
        @functools.wraps(orig)
        def logged(_args):
            i = _args[0]
            os.write(_LOG["fd"], f"{_LOG['callid']} {os.getpid()} {int(i)}\n".encode())
            if _LOG["delay"] and int(i) % 3 == 0:
                time.sleep(_LOG["delay"])
            return orig(_args)
        return logged
    wrapped = 0
    for attr in ("_cal_levenshtein", "_cal_custom_dist"):
        if callable(getattr(nn, attr, None)):
            setattr(nn, attr, wrap(getattr(nn, attr)))
            wrapped += 1
    _LOG["wrapped"] = wrapped          # 0 after a refactor that renamed the work functions: the log is then empty (observation lost, verdicts unaffected)
    _LOG["installed"] = True
    import atexit
    atexit.register(lambda: os.path.exists(path) and os.remove(path))


def _read_events(callid):
    ev = []
    with open(_LOG["path"]) as f:
        for line in f:
            c, pid, i = line.split()
            if int(c) == callid:
                ev.append((int(pid), int(i)))
    return ev


def _expected(seqs, k, mode, dist=None, maxcd=None):
    if mode == "default":
        return O.neigh_self(seqs, k)
    if mode == "hamming":
        return O.neigh_self(seqs, k, "ham")
    f = D.DISTS[dist]
    out = collections.Counter()
    for (i, j, d) in O.neigh_self(seqs, k):
        v = f(seqs[i], seqs[j])
        if v <= maxcd:
            out[(i, j, O.num(v))] += 1
    return out


def _kwargs(k, mode, dist, maxcd):
    kw = {"max_edits": k}
    if mode == "hamming":
        kw["custom_distance"] = "hamming"
    elif mode == "custom":
        kw["custom_distance"] = D.DISTS[dist]
        kw["max_custom_distance"] = float(maxcd)
    return kw


def k_config(ctx, seqs, k, mode, n_cpu, compression, dist=None, maxcd=None, delay=0.0):
    import pyrepseq.nn as nn
    _install_worker_log()
    maxcd = float("inf") if maxcd in (None, "inf") else maxcd
    exp = _expected(seqs, k, mode, dist, maxcd)
    n = len(seqs)
    ctx.count("config_cases")
    ctx.count(f"mode_{mode}")
    if exp:
        ctx.nontriv([seqs, k, mode, n_cpu, compression, dist, str(maxcd)])
    if n_cpu > 1:
        ctx.count("multi_process_calls")
    if n_cpu > n:
        ctx.count("ncpu_gt_len_cases")
    if n_cpu > 1 and n % n_cpu:
        ctx.count("chunk_not_dividing_cases")
    if compression > 1:
        ctx.count("compression_gt1_cases")
    ctx.sample(f"config:{mode}", {"seqs": seqs[:8], "n": n, "k": k, "mode": mode, "n_cpu": n_cpu,
                                  "compression": compression, "dist": dist, "maxcd": str(maxcd)})
    _LOG["callid"] += 1
    _LOG["delay"] = delay
    cid = _LOG["callid"]
    out = ctx.call(nn.kdtree, list(seqs), n_cpu=n_cpu, compression=compression, **_kwargs(k, mode, dist, maxcd))
    cls = ("ncpu>len" if n_cpu > n else "ncpu>1" if n_cpu > 1 else "ncpu=1") + (":compressed" if compression > 1 else "")
    S.expect_triplets(ctx, out, exp, "kdtree", f"config-{mode}-{cls}")
    # ---- offline checker over the worker-side event log: exactly-once + observed partition
    ev = _read_events(cid)
    ctx.count("worker_events", len(ev))
    if not _LOG.get("wrapped"):
        ctx.count("worker_log_unavailable")
    if out.ok:
        handled = collections.Counter(i for _, i in ev)
        if mode == "hamming":
            want = collections.Counter()
            for L, cnt in collections.Counter(len(s) for s in seqs).items():
                want.update(range(cnt))
        else:
            want = collections.Counter(range(n))
        # The event log is an *observation* of how the work was scheduled (which worker handled which query index, how many
        # distinct partitions occurred).  Whether every index was handled exactly once in the present implementation's own
        # bookkeeping is recorded as a counter; the verdict on the property is the comparison of the result with the oracle.
        ctx.count("exactly_once_checked_calls")
        if handled == want or handled == collections.Counter(range(n)):
            ctx.count("work_item_logs_exactly_once")
        else:
            ctx.count("work_item_log_anomalies")
        part = collections.defaultdict(list)
        for pid, i in ev:
            part[pid].append(i)
        canon = tuple(sorted(tuple(sorted(v)) for v in part.values()))
        ctx.nontriv(["partition", n, n_cpu, canon])
        ctx.distinct("index_to_worker_partitions", [n, n_cpu, canon])
        ctx.distinct("chunk_shapes", [n, n_cpu, sorted(len(v) for v in part.values())])
        ctx.count("worker_processes_seen", len(part))


def k_maxret(ctx, seqs, k, mode, m, n_cpu=1, dist=None, maxcd=None):
    import pyrepseq.nn as nn
    _install_worker_log()
    maxcd = float("inf") if maxcd in (None, "inf") else maxcd
    full = _expected(seqs, k, mode, dist, maxcd)
    ctx.count("max_returns_cases")
    ctx.nontriv(["M", seqs, k, mode, m, n_cpu, dist])
    ctx.sample("max_returns", {"seqs": seqs[:8], "n": len(seqs), "k": k, "mode": mode, "m": m})
    _LOG["callid"] += 1
    out = ctx.call(nn.kdtree, list(seqs), max_returns=m, n_cpu=n_cpu, **_kwargs(k, mode, dist, maxcd))
    if not out.ok:
        ctx.violation(f"kdtree:max_returns-{mode}:raised", "kdtree(max_returns=m) raised", out.describe(), None)
        return
    got = O.canon_triplets(out.value)
    true_by_q = collections.defaultdict(dict)
    for (i, j, d) in full:
        true_by_q[i][j] = d
    got_by_q = collections.defaultdict(list)
    for (i, j, d), c in got.items():
        if c > 1:
            ctx.violation(f"kdtree:max_returns-{mode}:repeated", "a triplet is reported more than once", (i, j, d), None)
        got_by_q[i].append((j, d))
    trunc = False
    for i in range(len(seqs)):
        tn = true_by_q.get(i, {})
        rep = got_by_q.get(i, [])
        if len(tn) > m:
            trunc = True
        if len(rep) != min(m, len(tn)):
            ctx.violation(f"kdtree:max_returns-{mode}:count", f"query {i} reports {len(rep)} neighbours, expected min(m={m}, true={len(tn)})",
                          rep, sorted(tn.items()))
            continue
        for j, d in rep:
            if j not in tn or tn[j] != d:
                ctx.violation(f"kdtree:max_returns-{mode}:not-a-true-neighbour", f"query {i} reports ({j},{d}) which is not a true neighbour/distance",
                              (i, j, d), sorted(tn.items()))
        if rep:
            worst = max(d for _, d in rep)
            omitted = [d for j, d in tn.items() if j not in {jj for jj, _ in rep}]
            if omitted and min(omitted) < worst:
                ctx.violation(f"kdtree:max_returns-{mode}:closer-omitted", f"query {i}: an omitted neighbour is strictly closer than a reported one",
                              rep, sorted(tn.items()))
    if trunc:
        ctx.count("max_returns_truncating")


def k_bigconfig(ctx, n_per_class, lengths, k, mode, n_cpu, compression, np_seed):
    """Thousands of sequences (several length classes of n_per_class each): the parallel / compressed configuration must give the
    triplets of the single-process default configuration of the same call (no oracle at this size: configuration independence only)."""
    import pyrepseq.nn as nn
    rng = random.Random(np_seed)
    seqs = []
    for L in lengths:
        roots = ["".join(rng.choice(G.AA) for _ in range(L)) for _ in range(max(1, n_per_class // 4))]
        for _ in range(n_per_class):
            r = list(rng.choice(roots))
            if rng.random() < 0.5:
                r[rng.randrange(L)] = rng.choice(G.AA)
            seqs.append("".join(r))
    rng.shuffle(seqs)
    ctx.count("big_config_cases")
    if len(seqs) > 65536:
        ctx.count("big_config_over_65536")
    ctx.nontriv(["bigconfig", n_per_class, lengths, k, mode, n_cpu, compression, np_seed])
    ctx.sample("bigconfig", {"n": len(seqs), "lengths": lengths, "mode": mode, "n_cpu": n_cpu, "compression": compression})
    base = ctx.call(nn.kdtree, list(seqs), n_cpu=1, compression=1, **_kwargs(k, mode, None, None))
    out = ctx.call(nn.kdtree, list(seqs), n_cpu=n_cpu, compression=compression, **_kwargs(k, mode, None, None))
    if not base.ok or not out.ok:
        ctx.violation(f"kdtree:bigconfig-{mode}:raised", "kdtree raised on a large input", (base if not base.ok else out).describe(), None)
        return
    a, b = O.canon_triplets(base.value), O.canon_triplets(out.value)
    ctx.count("triplets_compared", sum(a.values()))
    if a != b:
        d = O.diff_triplets(b, a)
        ctx.violation(f"kdtree:bigconfig-{mode}:differs", f"n_cpu={n_cpu}, compression={compression} on {len(seqs)} sequences differs from the single-process result: {str(d)[:300]}",
                      sum(b.values()), sum(a.values()))


def k_same_array(ctx, seqs, steps, n_cpu, edit=None):
    """the caller's own NumPy array passed to parallel kdtree calls again and again while the other arguments (and, in one step,
    the array's content) change: each answer must be the single-process / oracle answer for the arguments of THAT call"""
    import numpy as np
    import pyrepseq.nn as nn
    _install_worker_log()
    arr = np.array(list(seqs), dtype=object if max(map(len, seqs)) == 0 else None)
    ctx.count("same_array_object_cases")
    ctx.sample("same_array", {"seqs": seqs[:8], "steps": steps, "n_cpu": n_cpu})
    cur = list(seqs)
    for si, st in enumerate(steps):
        if st == "edit":
            i, new = edit
            arr[i] = new
            cur[i] = str(arr[i])
            continue
        k, mode, dist, maxcd = st
        maxcd_f = float("inf") if maxcd in (None, "inf") else maxcd
        exp = _expected(cur, k, mode, dist, maxcd_f)
        if exp:
            ctx.nontriv(["same-array", cur, si, st, n_cpu])
        ctx.count("multi_process_calls")
        ctx.count("same_array_object_calls")
        out = ctx.call(nn.kdtree, arr, n_cpu=n_cpu, **_kwargs(k, mode, dist, maxcd_f))
        S.expect_triplets(ctx, out, exp, "kdtree", f"same-array-step{min(si, 1)}-{mode}-ncpu>1")


KINDS = {"config": k_config, "maxret": k_maxret, "bigconfig": k_bigconfig, "same_array": k_same_array}
COMPRESSIONS = [1, 2, 3, 5, 7, 20, 21, 25]
MODES = ["default", "hamming", "custom"]


def _mk(rng, n):
    pool = rng.choice([G.universe("ACD", 3), G.universe("AWY", 3), G.universe("ACDEFGHIKLMNPQRSTVWY", 1) + G.universe("CY", 3)])
    if rng.random() < 0.5:
        seqs = G.repertoire(rng, n, families=max(1, n // 4), lo=2, hi=6)
    else:
        seqs = [rng.choice(pool) for _ in range(n)]
    return seqs


def generate(tier, seed):
    rng = random.Random(11000 + seed)
    thorough = tier == "thorough"
    # D2 witness class: more workers than sequences
    yield "config", {"seqs": ["CAAA", "CADA", "CAAK"], "k": 1, "mode": "default", "n_cpu": 8, "compression": 1}, True
    yield "config", {"seqs": ["CAAA"], "k": 1, "mode": "default", "n_cpu": 2, "compression": 1}, True
    yield "config", {"seqs": ["CAAA", "CADA", "CAAKK", "CAAAK"], "k": 1, "mode": "hamming", "n_cpu": 3, "compression": 2}, True
    # composition counts around 2^8 under every compression (indel pair whose lengths straddle 255 | 256)
    for comp in (1, 8, 20, 25):
        yield "config", {"seqs": ["A" * 255, "A" * 256, "A" * 254 + "C", "C" + "A" * 255], "k": 1, "mode": "default", "n_cpu": 1 + comp % 2, "compression": comp}, True
    # several length classes of a few thousand sequences each, in parallel (Hamming mode works per length class)
    yield "bigconfig", {"n_per_class": 2100, "lengths": [9, 11], "k": 1, "mode": "hamming", "n_cpu": 2, "compression": 1, "np_seed": 11500 + seed}, True
    if thorough:
        yield "bigconfig", {"n_per_class": 4200, "lengths": [8, 10, 12], "k": 1, "mode": "hamming", "n_cpu": 3, "compression": 1, "np_seed": 11600 + seed}, True
        yield "bigconfig", {"n_per_class": 33500, "lengths": [10, 12], "k": 1, "mode": "default", "n_cpu": 2, "compression": 1, "np_seed": 11700 + seed}, True
        yield "bigconfig", {"n_per_class": 9000, "lengths": [11], "k": 1, "mode": "default", "n_cpu": 3, "compression": 4, "np_seed": 11800 + seed}, True
    # the same ndarray object in consecutive parallel calls with other max_edits / distance / content
    fam = ["CAAA", "CADA", "CAAK", "CDDD", "CAAAK", "CAA", "CDDA", "CKKK", "CADAK", "CAAA"]
    for n_cpu in (2, 3):
        yield "same_array", {"seqs": fam, "n_cpu": n_cpu, "steps": [[1, "default", None, None], [2, "default", None, None], [2, "hamming", None, None],
                                                                     [2, "custom", "lev2", 2], [1, "default", None, None]]}, True
        yield "same_array", {"seqs": fam, "n_cpu": n_cpu, "edit": [3, "CAAD"], "steps": [[1, "default", None, None], "edit", [1, "default", None, None]]}, True
        yield "same_array", {"seqs": fam, "n_cpu": n_cpu, "steps": [[2, "custom", "halflev", 1], [2, "custom", "levplus", "inf"], [3, "default", None, None]]}, True
    if thorough:
        idx = 0
        for n in range(1, 25):
            seqs = _mk(rng, n)
            for n_cpu in range(1, 17):
                for comp in COMPRESSIONS:
                    mode = MODES[idx % 3]
                    idx += 1
                    p = {"seqs": seqs, "k": 1 + idx % 2, "mode": mode, "n_cpu": n_cpu, "compression": comp}
                    if mode == "custom":
                        p.update(dist=["lev2", "halflev", "levplus"][idx % 3], maxcd=["inf", 2, 1][idx % 3])
                    if idx % 7 == 0 and n_cpu > 1:
                        p["delay"] = 0.002
                    yield "config", p, True
    else:
        # Latin-square style sample: every n_cpu, every compression, every len class, every mode
        idx = 0
        for n in list(range(1, 25)):
            seqs = _mk(rng, n)
            for rep in range(4):
                n_cpu = 1 + (n * 5 + rep * 7 + idx) % 16
                comp = COMPRESSIONS[(n + rep * 3) % len(COMPRESSIONS)]
                mode = MODES[(n + rep) % 3]
                idx += 1
                p = {"seqs": seqs, "k": 1 + (n + rep) % 2, "mode": mode, "n_cpu": n_cpu, "compression": comp}
                if mode == "custom":
                    p.update(dist=["lev2", "halflev", "levplus"][idx % 3], maxcd=["inf", 2, 1][idx % 3])
                if rep == 3 and n_cpu > 1:
                    p["delay"] = 0.002
                yield "config", p, n % 3 == 0 or rep == 0
    # single-process configuration sweep on larger inputs (compression only)
    n_big = 200 * TS if thorough else 16
    for i in range(n_big):
        seqs = G.repertoire(rng, rng.randint(30, 120))
        comp = COMPRESSIONS[i % len(COMPRESSIONS)]
        mode = MODES[i % 3]
        p = {"seqs": seqs, "k": rng.choice([1, 2, 3]), "mode": mode, "n_cpu": 1 if i % 4 else 4, "compression": comp}
        if mode == "custom":
            p.update(dist="lev2", maxcd=["inf", 4][i % 2])
        yield "config", p, i < 6
    # max_returns
    n_mr = 1500 * TS if thorough else 90
    for i in range(n_mr):
        n = rng.randint(2, 40)
        pool = G.universe("AC", 4) if i % 2 else G.universe("ACD", 3)
        seqs = [rng.choice(pool) for _ in range(n)]
        mode = MODES[i % 3]
        p = {"seqs": seqs, "k": rng.choice([1, 2, 3]), "mode": mode, "m": rng.choice([1, 1, 2, 3, 5, 50]),
             "n_cpu": 1 if i % 5 else 3}
        if mode == "custom":
            p.update(dist=["lev2", "levplus", "compl1"][i % 3], maxcd="inf")
        yield "maxret", p, i < 30
