"""C06 - pc and its variance estimator are unbiased under multinomial sampling."""
import itertools
import math
import random
from fractions import Fraction

from vmon import gens as G
from vmon.gens import THOROUGH_SCALE as TS
from vmon import oracles as O

PID = "C06"
RULE = ("For fixed (N,K), E_p[f(n)] = g(p) for all p is a polynomial identity on the simplex and holds iff it holds for every "
        "count vector n: pc_n(n) = sum n_i^(2) / N^(2) and, for N>=4, varpc_n(n) = pc_n(n)^2 - U22(n) with U22 the unique unbiased "
        "estimator of (sum p^2)^2 (falling factorials). vecs cases run the *real* pc_n / varpc_n on every count vector of one (N,K), "
        "as dtype=object arrays of fractions.Fraction (the repository's own arithmetic then runs in exact rationals) and as integer "
        "arrays (float comparison); plus stdpc_n^2 = varpc_n, pc/stdpc on the realised sample, stdpc_joint on a realised table. "
        "expect cases evaluate the literal statement: sum_n Multinomial(n;p) f(n) at random rational p against sum p^2, sum p_i q_i "
        "and the true variance of pc. distinct_nontrivial = distinct count vectors with at least two non-zero categories.")
ASSUMPTIONS = ["exactness relies on pc_n/varpc_n accepting object arrays of Fraction; if a refactor forces floats the check falls back to float comparison (abs 1e-11) and records exact_unavailable",
               "count vectors are bounded so that int64 cubes do not overflow (N <= 10^6)"]
EXHAUSTIVE = {"quick": ["every count vector with N=2..12, K<=4 (zeros allowed)", "two-sample: every pair of count vectors K<=3, N1,N2<=4"],
              "thorough": ["every count vector with N=2..22, K<=5", "two-sample: every pair K<=3, N1,N2<=6"]}
REQUIRE = {"two_sample_categoricals": 148, "sample_as_table_with_missing_cells": 1182, "sample_buffer_reused": 1182, "vectors_checked": 1190, "varpc_exact_identities": 1000, "pc_exact_identities": 1190, "stdpc_n_checked": 300,
           "stdpc_sample_checked": 100, "expectation_identities_pc": 12, "expectation_identities_var": 8,
           "expectation_identities_two_sample": 4, "two_sample_vectors": 200, "two_sample_tables": 50, "stdpc_joint_checked": 6, "large_vectors": 7, "big_samples": 2, "pc_n_narrow_dtype_checked": 100, "count_array_reused": 100}
SHARDS = {"quick": 6, "thorough": 16}


def self_test():
    O.self_test()
    # the reduction itself: U22 is unbiased for (sum p^2)^2 on a small exact example
    p = [Fraction(1, 2), Fraction(1, 3), Fraction(1, 6)]
    N = 5
    tot = Fraction(0)
    for n in G.count_vectors(N, 3):
        tot += _multinomial(n, p) * O.U22(n)
    assert tot == sum(x * x for x in p) ** 2


def _multinomial(n, p):
    N = sum(n)
    c = math.factorial(N)
    out = Fraction(c)
    for ni, pi in zip(n, p):
        out = out / math.factorial(ni) * (pi ** ni)
    return out


def _frac_array(n):
    import numpy as np
    a = np.empty(len(n), dtype=object)
    for i, v in enumerate(n):
        a[i] = Fraction(int(v))
    return a


def _exact_call(ctx, fn, n):
    """Run the real function in exact rationals; returns Fraction or None (exact path unavailable)."""
    out = ctx.call(fn, _frac_array(n))
    if out.ok and isinstance(out.value, Fraction):
        return out.value
    if out.ok and isinstance(out.value, int):
        return Fraction(out.value)
    ctx.count("exact_unavailable")
    return None


def _close(a, b, tol=1e-11):
    try:
        a = float(a)
    except Exception:
        return False
    return abs(a - float(b)) <= tol + 1e-9 * abs(float(b))


def _check_vector(ctx, n, stats, realise=True):
    import numpy as np
    import pyrepseq as prs
    N = sum(n)
    nz = [x for x in n if x]
    if len(nz) >= 2:
        ctx.nontriv(sorted(nz, reverse=True))
    ctx.count("vectors_checked")
    want_pc = O.U2(n)
    ex = _exact_call(ctx, prs.pc_n, n)
    if ex is not None:
        ctx.count("pc_exact_identities")
        if ex != want_pc:
            ctx.violation("pc_n:not-the-U-statistic", "pc_n(n) != sum n_i(n_i-1) / (N(N-1)): the estimator is biased for some p",
                          str(ex), str(want_pc), {"n": list(n)})
    arr = np.array(n)
    fl = ctx.call(prs.pc_n, arr)
    if N % 3 == 0:
        # the caller's count array is reused: second call and a later varpc_n must see the same counts
        again = ctx.call(prs.pc_n, arr)
        ctx.count("count_array_reused")
        if arr.tolist() != list(n):
            ctx.count("count_array_modified")                # argument purity is C20's property; the value of the second call decides here
        if not again.ok or not _close(again.value, want_pc):
            ctx.violation("pc_n:second-call-differs", "a second pc_n call on the same array gives another value", again.describe(), str(want_pc), {"n": list(n)})
    if not fl.ok or not _close(fl.value, want_pc):
        ctx.violation("pc_n:float:wrong", "pc_n on an integer array differs from the exact U-statistic", fl.describe(), str(want_pc), {"n": list(n)})
    # narrow integer dtypes, only where every single term n_i(n_i-1) and N(N-1) still fits the dtype
    for dt, lim in ((np.int16, 2 ** 15 - 1), (np.uint16, 2 ** 16 - 1), (np.int32, 2 ** 31 - 1)):
        if max(n) * (max(n) - 1) <= lim and N <= lim and (dt is not np.int32 or N > 60000):
            nd = ctx.call(prs.pc_n, np.array(n, dtype=dt))
            ctx.count("pc_n_narrow_dtype_checked")
            if not nd.ok or not _close(nd.value, want_pc):
                ctx.violation(f"pc_n:{np.dtype(dt).name}:wrong", "pc_n on a narrow-integer count array differs from the exact U-statistic (overflow?)",
                              nd.describe(), str(want_pc), {"n": list(n)})
    if N >= 4:
        want_var = want_pc * want_pc - O.U22(n)
        ev = _exact_call(ctx, prs.varpc_n, n)
        if ev is not None:
            ctx.count("varpc_exact_identities")
            if ev != want_var:
                ctx.violation("varpc_n:not-unbiased", "varpc_n(n) != pc_n(n)^2 - U22(n): its expectation is not Var(pc) for some p",
                              str(ev), str(want_var), {"n": list(n)})
        fv = ctx.call(prs.varpc_n, np.array(n))
        if not fv.ok or not _close(fv.value, want_var):
            ctx.violation("varpc_n:float:wrong", "varpc_n on an integer array differs from the exact unbiased variance", fv.describe(),
                          str(want_var), {"n": list(n)})
        if want_var > 0:
            sd = ctx.call(prs.stdpc_n, np.array(n))
            ctx.count("stdpc_n_checked")
            if not sd.ok or not _close(float(sd.value) ** 2 if sd.ok else None, want_var, 1e-10):
                ctx.violation("stdpc_n:not-sqrt-of-varpc_n", "stdpc_n(n)^2 != varpc_n(n)", sd.describe(), str(want_var), {"n": list(n)})
            if realise and N <= 60:
                xs = [f"e{i}" for i, m in enumerate(n) for _ in range(m)]
                random.Random(N).shuffle(xs)
                ss = ctx.call(prs.stdpc, xs)
                ctx.count("stdpc_sample_checked")
                if not ss.ok or not _close(float(ss.value) ** 2 if ss.ok else None, want_var, 1e-10):
                    ctx.violation("stdpc:sample-vs-counts", "stdpc(sample)^2 != varpc_n(counts of that sample)", ss.describe(), str(want_var), {"n": list(n)})
    if realise and N <= 60:
        xs = [i for i, m in enumerate(n) for _ in range(m)]
        random.Random(N + 1).shuffle(xs)
        p1 = ctx.call(prs.pc, xs)
        if not p1.ok or not _close(p1.value, want_pc):
            ctx.violation("pc:sample-vs-counts", "pc(sample) != exact U-statistic of its counts", p1.describe(), str(want_pc), {"n": list(n)})
        # the same sample as table rows, the categories being rows with missing cells (missing counts as one empty value)
        if len(n) <= 6:
            import pandas as pd
            catrows = [("A", None), (None, "x"), ("A", "y"), (None, None), ("B", None), ("A", "x")]
            rows = [catrows[i] for i in xs]
            pt = ctx.call(prs.pc, pd.DataFrame(rows, columns=["CDR3A", "CDR3B"]))
            ctx.count("sample_as_table_with_missing_cells")
            if not pt.ok or not _close(pt.value, want_pc):
                ctx.violation("pc:sample-as-table-with-missing-cells", "pc(table whose rows are the sampled categories, some cells missing) != exact U-statistic",
                              pt.describe(), str(want_pc), {"n": list(n)})
        # a resampling loop that draws every sample into one and the same array (content replaced in place between the calls)
        buf = _BUFS.setdefault(N, np.zeros(N, dtype=np.int64))
        buf[:] = 0                       # the previous draw of the loop: a one-category sample (pc = 1) ...
        prev = ctx.call(prs.pc, buf)
        if not prev.ok or not _close(prev.value, 1):
            ctx.violation("pc:sample-buffer-reused", "pc(one-category sample in the reused array) != 1", prev.describe(), "1", {"n": [N]})
        buf[:] = xs                      # ... directly followed by this one in the same array object
        pb = ctx.call(prs.pc, buf)
        ctx.count("sample_buffer_reused")
        if not pb.ok or not _close(pb.value, want_pc):
            ctx.violation("pc:sample-buffer-reused", "pc(sample drawn into a reused array) != exact U-statistic of its present content",
                          pb.describe(), str(want_pc), {"n": list(n)})
        if N >= 4 and want_pc * want_pc - O.U22(n) > 0:
            sb = ctx.call(prs.stdpc, buf)
            wv = want_pc * want_pc - O.U22(n)
            if not sb.ok or not _close(float(sb.value) ** 2 if sb.ok else None, wv, 1e-10):
                ctx.violation("stdpc:sample-buffer-reused", "stdpc(sample drawn into a reused array)^2 != varpc_n(counts of its present content)",
                              sb.describe(), str(wv), {"n": list(n)})
    stats.append(1)


_BUFS = {}


def k_vecs(ctx, N, K):
    stats = []
    for n in G.count_vectors(N, K):
        _check_vector(ctx, n, stats)
    ctx.sample("vecs", {"N": N, "K": K, "vectors": len(stats), "example": list(next(iter(G.count_vectors(N, K))))})


def k_vec(ctx, n):
    _check_vector(ctx, tuple(n), [], realise=False)
    ctx.count("large_vectors")
    ctx.sample("large_vector", {"n": list(n)[:10], "N": sum(n)})


def k_two(ctx, N1, N2, K):
    import pyrepseq as prs
    cnt = 0
    lab = ["CAS", "CASS", "CASSL", "CASSLG", "C"]        # labels that are prefixes of each other, of different widths
    for n1 in G.count_vectors(N1, K):
        xs = [lab[i] for i, m in enumerate(n1) for _ in range(m)]
        for n2 in G.count_vectors(N2, K):
            ys = [lab[i] for i, m in enumerate(n2) for _ in range(m)]
            want = Fraction(sum(a * b for a, b in zip(n1, n2)), N1 * N2)
            out = ctx.call(prs.pc, xs, ys)
            cnt += 1
            ctx.count("two_sample_vectors")
            if sum(1 for a, b in zip(n1, n2) if a and b) >= 1 and want < 1:
                ctx.nontriv(["2", list(n1), list(n2)])
            if not out.ok or not _close(out.value, want):
                ctx.violation("pc:two-sample:not-unbiased", "pc(a,b) != sum n1_i n2_i/(N1 N2): its expectation is not sum p_i q_i",
                              out.describe(), str(want), {"n1": list(n1), "n2": list(n2)})
            if cnt % 4 == 1 and K <= len(lab):
                # categorical Series listing the same categories in different orders
                import pandas as pd
                ca = pd.Series(pd.Categorical(xs, categories=lab[:K]))
                cb = pd.Series(pd.Categorical(ys, categories=list(reversed(lab[:K]))))
                oc = ctx.call(prs.pc, ca, cb)
                ctx.count("two_sample_categoricals")
                if not oc.ok or not _close(oc.value, want):
                    ctx.violation("pc:two-sample:categorical:not-unbiased", "pc(categorical a, categorical b with the categories listed in another order) != sum n1_i n2_i/(N1 N2)",
                                  oc.describe(), str(want), {"n1": list(n1), "n2": list(n2)})
            if cnt % 3 == 0:
                # the same two samples as two-column tables (categories are row contents) and as legacy tuples
                import pandas as pd
                cat = [("A", "x"), ("B", "x"), ("A", "y"), ("C", "z")]
                rx = [cat[i] for i, m in enumerate(n1) for _ in range(m)][::-1]
                ry = [cat[i] for i, m in enumerate(n2) for _ in range(m)]
                d1 = pd.DataFrame(rx, columns=["CDR3A", "CDR3B"])
                d2 = pd.DataFrame(ry, columns=["CDR3A", "CDR3B"])
                out = ctx.call(prs.pc, d1, d2)
                ctx.count("two_sample_tables")
                if not out.ok or not _close(out.value, want):
                    ctx.violation("pc:two-sample:tables:not-unbiased", "pc(table_a, table_b) != sum n1_i n2_i/(N1 N2)",
                                  out.describe(), str(want), {"n1": list(n1), "n2": list(n2)})
                out = ctx.call(prs.pc, ([r[0] for r in rx], [r[1] for r in rx]), ([r[0] for r in ry], [r[1] for r in ry]))
                if not out.ok or not _close(out.value, want):
                    ctx.violation("pc:two-sample:legacy-tuples:not-unbiased", "pc((a1,b1),(a2,b2)) != sum n1_i n2_i/(N1 N2)",
                                  out.describe(), str(want), {"n1": list(n1), "n2": list(n2)})
    ctx.sample("two", {"N1": N1, "N2": N2, "K": K, "pairs": cnt})


def k_expect(ctx, N, K, p, q=None, N2=None):
    """Literal statement: sum_n Multinomial(n;p) f(n) == target, f evaluated by the real code."""
    import numpy as np
    import pyrepseq as prs
    pf = [Fraction(x) for x in p]
    s2 = sum(x * x for x in pf)
    ctx.sample("expect", {"N": N, "K": K, "p": p, "q": q, "N2": N2})
    if q is None:
        e_pc = Fraction(0)
        e_var = Fraction(0)
        e_pc2 = Fraction(0)
        exact = True
        for n in G.count_vectors(N, K):
            w = _multinomial(n, pf)
            if w == 0:
                continue
            v = _exact_call(ctx, prs.pc_n, n)
            if v is None:
                exact = False
                v = Fraction(float(ctx.call(prs.pc_n, np.array(n)).value)).limit_denominator(10 ** 12)
            e_pc += w * v
            e_pc2 += w * O.U2(n) ** 2
            if N >= 4:
                vv = _exact_call(ctx, prs.varpc_n, n)
                if vv is None:
                    exact = False
                    vv = Fraction(float(ctx.call(prs.varpc_n, np.array(n)).value)).limit_denominator(10 ** 12)
                e_var += w * vv
        ctx.count("expectation_identities_pc")
        ctx.nontriv(["E", N, K, p])
        ok = (e_pc == s2) if exact else abs(float(e_pc - s2)) < 1e-9
        if not ok:
            ctx.violation("pc_n:expectation", "E[pc_n] != sum p_i^2 under multinomial sampling", str(e_pc), str(s2), {"N": N, "p": p})
        if N >= 4:
            true_var = e_pc2 - s2 * s2
            ctx.count("expectation_identities_var")
            ok = (e_var == true_var) if exact else abs(float(e_var - true_var)) < 1e-9
            if not ok:
                ctx.violation("varpc_n:expectation", "E[varpc_n] != Var(pc) under multinomial sampling", f"{e_var} = {float(e_var)}",
                              f"{true_var} = {float(true_var)}", {"N": N, "p": p})
    else:
        qf = [Fraction(x) for x in q]
        target = sum(a * b for a, b in zip(pf, qf))
        tot = 0.0
        for n1 in G.count_vectors(N, K):
            w1 = _multinomial(n1, pf)
            if w1 == 0:
                continue
            xs = [f"c{i}" for i, m in enumerate(n1) for _ in range(m)]
            for n2 in G.count_vectors(N2, K):
                w2 = _multinomial(n2, qf)
                if w2 == 0:
                    continue
                ys = [f"c{i}" for i, m in enumerate(n2) for _ in range(m)]
                out = ctx.call(prs.pc, xs, ys)
                tot += float(w1 * w2) * float(out.value if out.ok else float("nan"))
        ctx.count("expectation_identities_two_sample")
        ctx.nontriv(["E2", N, N2, K, p, q])
        if not abs(tot - float(target)) < 1e-9:
            ctx.violation("pc:two-sample:expectation", "E[pc(a,b)] != sum p_i q_i", tot, str(target), {"N1": N, "N2": N2, "p": p, "q": q})


def k_joint(ctx, rows, cols):
    import collections
    import numpy as np
    import pandas as pd
    import pyrepseq as prs
    df = pd.DataFrame(rows, columns=cols)
    counts = list(collections.Counter(tuple(r) for r in rows).values())
    N = len(rows)
    ctx.count("stdpc_joint_checked")
    ctx.nontriv(["J", rows])
    ctx.sample("joint", {"rows": rows[:6], "cols": cols})
    want_pc = O.U2(counts)
    want_var = want_pc ** 2 - O.U22(counts)
    out = ctx.call(prs.stdpc_joint, df, list(cols))
    if want_var > 0:
        if not out.ok or not _close(float(out.value) ** 2 if out.ok else None, want_var, 1e-10):
            ctx.violation("stdpc_joint:wrong", "stdpc_joint(df, cols)^2 != unbiased variance on the row-tuple counts", out.describe(), str(want_var))


def k_bigsample(ctx, n, etype):
    import numpy as np
    import pyrepseq as prs
    xs = [(f"c{i}" if etype == "str" else i) for i, m in enumerate(n) for _ in range(m)]
    random.Random(len(xs)).shuffle(xs)
    want = O.U2(n)
    ctx.count("big_samples")
    ctx.nontriv(["big", n, etype])
    ctx.sample("bigsample", {"n": n, "etype": etype})
    out = ctx.call(prs.pc, xs)
    if not out.ok or not _close(out.value, want):
        ctx.violation("pc:large-sample:wrong", "pc of a large sample with a dominant category is not the U-statistic of its counts (integer overflow?)",
                      out.describe(), f"{float(want)}", {"n": n})
    out = ctx.call(prs.pc, np.array(xs), xs[: len(xs) // 2])
    want2 = Fraction(sum(a * b for a, b in zip(n, [xs[: len(xs) // 2].count(f"c{i}" if etype == "str" else i) for i in range(len(n))])), len(xs) * (len(xs) // 2))
    if not out.ok or not _close(out.value, want2):
        ctx.violation("pc:two-sample:large-sample:wrong", "two-sample pc of large samples is not sum n1_i n2_i/(N1 N2)", out.describe(), f"{float(want2)}", {"n": n})
    if sum(n) >= 4:
        want_var = want * want - O.U22(n)
        if want_var > 0:
            sd = ctx.call(prs.stdpc, xs)
            if not sd.ok or not _close(float(sd.value) ** 2 if sd.ok else None, want_var, 1e-10):
                ctx.violation("stdpc:large-sample:wrong", "stdpc(sample)^2 != unbiased variance of its counts", sd.describe(), f"{float(want_var)}", {"n": n})


KINDS = {"bigsample": k_bigsample, "vecs": k_vecs, "vec": k_vec, "two": k_two, "expect": k_expect, "joint": k_joint}


def _rand_p(rng, K):
    w = [rng.randint(1, 9) for _ in range(K)]
    if rng.random() < 0.3:
        w[rng.randrange(K)] = 0
        if sum(w) == 0:
            w[0] = 1
    s = sum(w)
    return [f"{x}/{s}" for x in w]


def generate(tier, seed):
    rng = random.Random(6000 + seed)
    thorough = tier == "thorough"
    nmax, kmax = (22, 5) if thorough else (12, 4)
    for N in range(2, nmax + 1):
        for K in range(1, kmax + 1):
            if thorough and N > 16 and K == 5 and N % 2:
                continue
            yield "vecs", {"N": N, "K": K}, True
    m = 6 if thorough else 4
    for N1 in range(1, m + 1):
        for N2 in range(1, m + 1):
            yield "two", {"N1": N1, "N2": N2, "K": 3}, True
    # literal expectations
    for N in (2, 3, 4, 5, 6, 8) + ((10, 12) if thorough else ()):
        for K in (2, 3) + ((4,) if thorough else ()):
            for r in range(6 if thorough else 2):
                yield "expect", {"N": N, "K": K, "p": _rand_p(rng, K)}, True
    for (N1, N2) in ((2, 3), (3, 3), (1, 4), (4, 2)):
        for r in range(3 if thorough else 2):
            yield "expect", {"N": N1, "N2": N2, "K": 3, "p": _rand_p(rng, 3), "q": _rand_p(rng, 3)}, True
    # large random vectors
    for n in ([150, 150, 150], [181, 120, 100, 90], [40000, 40000, 30000], [46000, 46000], [200, 200, 200, 200, 200]):
        yield "vec", {"n": n}, True
    for i in range(400 * TS if thorough else 40):
        K = rng.randint(1, 30)
        scale = rng.choice([10, 1000, 30000])
        n = [rng.randint(0, scale) for _ in range(K)]
        if sum(n) < 4:
            n[0] += 4
        yield "vec", {"n": n}, i < 15
    cells = ["A", "B", "AB", "C"]
    for i in range(150 * TS if thorough else 24):
        nr = rng.randint(4, 30)
        nc = 1 + i % 4
        rows = [[rng.choice(cells[: 2 + (i + c) % 3]) for c in range(nc)] for _ in range(nr)]
        rows[1] = list(rows[0])
        yield "joint", {"rows": rows, "cols": ["x", "y", "z", "w"][:nc]}, i < 16
    # large samples with a dominant category (counts beyond 2^15.5: products overflow 32-bit integers)
    for i, n in enumerate([[50000, 9000, 1000], [46342, 3], [70000], [100, 65536, 7]] + ([[200000, 100000, 5]] if thorough else [])):
        yield "bigsample", {"n": n, "etype": ["str", "int"][i % 2]}, True
