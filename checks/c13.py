"""C13 - grouped, conditional and entropy statistics are compositions of pc and pcDelta."""
import math
import random
from fractions import Fraction

from vmon import gens as G
from vmon.gens import THOROUGH_SCALE as TS

TS = TS * 6          # this check is cheap per case: the thorough tier explores six times the common random workload
from vmon import oracles as O

PID = "C13"
RULE = ("each case = one table (1-2 grouping columns with string / numeric / unsorted keys and singleton groups, a sequence column, "
        "feature columns) x one function: pc_conditional (string/list by, single/multi on, weights), pc_grouped_cross, pcDelta_grouped "
        "(edge vectors and bins=0), pcDelta_grouped_cross (condensed with edge vectors and bins=0; square with bins=0), renyi2_entropy, "
        "stdrenyi2_entropy (bases 2, e, 10). Oracle: groups formed by a plain dictionary; values from exact pair counting, own histogram, "
        "w^2-weighted mean over groups with >=2 members, -log_base, stdpc/(pc ln base) with the exact unbiased variance. "
        "distinct_nontrivial = distinct (function, table, options) with >=2 groups.")
ASSUMPTIONS = ["group weights are given in sorted-key order of the groups that have >=2 members (what pandas groupby yields)",
               "the square form of pcDelta_grouped_cross is only demanded for bins=0 (vector-valued entries have no 2-D form; the code raises there)",
               "cell text contains no '.' or '_' (C02's quantifier); float comparison rel 1e-9, NaN == NaN"]
EXHAUSTIVE = {"quick": ["fixed witness table x every function x every option"], "thorough": ["fixed witness tables x every function x every option"]}
REQUIRE = {"pc_grouped_cross_big_cases": 1, "pc_conditional_cases": 12, "pc_conditional_weighted": 6, "pc_conditional_multi_on": 6, "pc_conditional_two_by": 2,
           "singleton_group_tables": 20, "pc_grouped_cross_cases": 5, "pcDelta_grouped_cases": 14, "pcDelta_grouped_bins0": 1,
           "pcDelta_grouped_cross_condensed": 11, "pcDelta_grouped_cross_square_bins0": 2, "renyi_cases": 10, "renyi_conditional": 5,
           "stdrenyi_cases": 4, "numeric_key_tables": 10, "cells_compared": 500, "weights_ndarray_reused": 3, "renyi_pc_exactly_zero": 3}
SHARDS = {"quick": 4, "thorough": 16}


def self_test():
    O.self_test()


def _df(rows, cols):
    import pandas as pd
    df = pd.DataFrame(rows, columns=cols)
    flavour = (len(rows) + sum(len(str(r[2])) for r in rows)) % 4        # the table's index labels must not matter
    if flavour == 1:
        df.index = range(7, 7 + len(rows))
    elif flavour == 2:
        df.index = [f"r{i}" for i in range(len(rows))]
    elif flavour == 3:
        df.index = [i // 2 for i in range(len(rows))]
    return df


def _groups(rows, cols, by):
    by = [by] if isinstance(by, str) else list(by)
    idx = [cols.index(b) for b in by]
    g = {}
    for r in rows:
        key = r[idx[0]] if len(idx) == 1 else tuple(r[i] for i in idx)
        g.setdefault(key, []).append(r)
    return dict(sorted(g.items()))


def _vals(rows, cols, on):
    if isinstance(on, str):
        i = cols.index(on)
        return [r[i] for r in rows]
    idx = [cols.index(c) for c in on]
    return [tuple(r[i] for i in idx) for r in rows]


def _f(x):
    return float("nan") if x is None else float(x)


def _plain(k):
    """group label -> plain Python value (NumPy scalars unwrapped, MultiIndex entries as tuples)"""
    if isinstance(k, tuple):
        return tuple(_plain(x) for x in k)
    k = k.item() if hasattr(k, "item") else k
    return float(k) if isinstance(k, (int, float)) and not isinstance(k, bool) else k


def _eq(a, b, tol=1e-9):
    try:
        a = float(a)
    except Exception:
        return False
    b = float(b)
    if a != a and b != b:
        return True
    if a in (float("inf"), float("-inf")) or b in (float("inf"), float("-inf")):
        return a == b
    return abs(a - b) <= 1e-12 + tol * abs(b)


def _classes(ctx, rows, cols, by):
    g = _groups(rows, cols, by)
    if any(len(v) == 1 for v in g.values()):
        ctx.count("singleton_group_tables")
    k = next(iter(g))
    if isinstance(k, (int, float)) or (isinstance(k, tuple) and any(isinstance(x, (int, float)) for x in k)):
        ctx.count("numeric_key_tables")
    return g


def _pc_conditional(rows, cols, by, on, weights):
    g = {k: v for k, v in _groups(rows, cols, by).items() if len(v) >= 2}
    if sum(len(v) for v in g.values()) < 2:
        return float("nan")
    vals = [O.pc_pairs(_vals(v, cols, on)) for v in g.values()]
    w = [Fraction(1)] * len(vals) if weights is None else [Fraction(x) for x in weights]
    den = sum(x * x for x in w)
    return float(sum(x * x * v for x, v in zip(w, vals)) / den)


def k_pc_conditional(ctx, rows, cols, by, on, weights=None):
    import pyrepseq as prs
    g = _classes(ctx, rows, cols, by)
    want = _pc_conditional(rows, cols, by, on, weights)
    ctx.count("pc_conditional_cases")
    if weights is not None:
        ctx.count("pc_conditional_weighted")
    if isinstance(on, list):
        ctx.count("pc_conditional_multi_on")
    if isinstance(by, list) and len(by) > 1:
        ctx.count("pc_conditional_two_by")
    if len(g) >= 2:
        ctx.nontriv(["pcc", rows, by, on, weights])
    ctx.sample("pc_conditional", {"rows": rows[:6], "by": by, "on": on, "weights": weights, "expected": want})
    import numpy as np
    warr = None
    if weights is None:
        kw = {}
    elif len(weights) % 2:
        warr = np.array(weights, dtype=float)          # the caller's own array: must stay usable for a second call
        kw = {"group_weights": warr}
    else:
        kw = {"group_weights": list(weights)}
    out = ctx.call(prs.pc_conditional, _df(rows, cols), by, on, **kw)
    if warr is not None:
        ctx.count("weights_ndarray_reused")
        if warr.tolist() != [float(x) for x in weights]:
            ctx.count("weights_array_modified")              # argument purity is C20's property; what matters here is the value of the next call
        again = ctx.call(prs.pc_conditional, _df(rows, cols), by, on, group_weights=warr)
        if not again.ok or not _eq(again.value, want):
            ctx.violation("pc_conditional:weighted:second-call-differs", "a second call with the same weights array does not give the weighted mean either / any more",
                          again.describe(), want)
        ent = ctx.call(prs.renyi2_entropy, _df(rows, cols), on, by=by, base=2.0, group_weights=warr)
        want_e = float("nan") if want != want else (float("inf") if want == 0 else -math.log(want) / math.log(2.0))
        if not ent.ok or not _eq(ent.value, want_e):
            ctx.violation("renyi2_entropy:conditional:after-pc_conditional", "entropy with the same weights array is not -log2 of pc_conditional",
                          ent.describe(), want_e)
    opt = ("weighted" if weights is not None else "uniform") + (":multi-on" if isinstance(on, list) else "")
    if not out.ok:
        ctx.violation(f"pc_conditional:{opt}:raised", "pc_conditional raised", out.describe(), want)
    elif not _eq(out.value, want):
        ctx.violation(f"pc_conditional:{opt}:wrong", "not the w^2-weighted mean of pc over the groups with >=2 members", out.value, want)
    ctx.count("cells_compared")


def k_pgc_big(ctx, mult, np_seed):
    """Groups of tens of thousands of rows in which one value occurs `mult` times per group (count products beyond 2^31):
    pc(g, h) follows from the value counts."""
    import numpy as np
    import pandas as pd
    import pyrepseq as prs
    rng = random.Random(np_seed)
    groups = {"g1": {"X": mult, "A": 700, "B": 3}, "g2": {"X": mult + 11, "B": 900, "C": 5}, "g3": {"A": 40, "C": 60, "D": 1}}
    rows = [(g, v) for g, cnt in groups.items() for v, c in cnt.items() for _ in range(c)]
    rng.shuffle(rows)
    df = pd.DataFrame(rows, columns=["grp", "seq"])
    ctx.count("pc_grouped_cross_big_cases")
    ctx.nontriv(["pgcbig", mult, np_seed])
    ctx.sample("pc_grouped_cross_big", {"rows": len(rows), "multiplicity": mult})
    out = ctx.call(prs.pc_grouped_cross, df, "grp", "seq")
    if not out.ok:
        ctx.violation("pc_grouped_cross:big:raised", "raised", out.describe(), None)
        return
    M = out.value
    for a in groups:
        for b in groups:
            if a == b:
                continue
            na, nb = sum(groups[a].values()), sum(groups[b].values())
            want = Fraction(sum(groups[a][v] * groups[b].get(v, 0) for v in groups[a]), na * nb)
            got = float(M.loc[a, b])
            ctx.count("cells_compared")
            if not abs(got - float(want)) <= 1e-12 * max(1.0, float(want)):
                ctx.violation("pc_grouped_cross:big:wrong", f"[{a}, {b}] is not pc(group {a}, group {b}) for groups of {na} and {nb} rows", got, float(want))
                return


def k_pc_grouped_cross(ctx, rows, cols, by, on):
    import numpy as np
    import pyrepseq as prs
    g = _classes(ctx, rows, cols, by)
    keys = list(g)
    ctx.count("pc_grouped_cross_cases")
    if len(g) >= 2:
        ctx.nontriv(["pgc", rows, by, on])
    ctx.sample("pc_grouped_cross", {"rows": rows[:6], "by": by, "on": on, "groups": [str(k) for k in keys]})
    out = ctx.call(prs.pc_grouped_cross, _df(rows, cols), by, on)
    if not out.ok:
        ctx.violation("pc_grouped_cross:raised", "raised", out.describe(), None)
        return
    M = out.value
    labels = [_plain(x) for x in list(M.index)]
    clabels = [_plain(x) for x in list(M.columns)]
    pk = [_plain(k) for k in keys]
    if sorted(map(repr, labels)) != sorted(map(repr, pk)) or sorted(map(repr, clabels)) != sorted(map(repr, pk)):
        ctx.violation("pc_grouped_cross:labels", "row/column labels are not the group keys", [str(x) for x in labels], [str(k) for k in keys])
        return
    A0 = np.asarray(M.values, dtype=float)
    ri = [labels.index(k) for k in pk]
    ci = [clabels.index(k) for k in pk]
    A = A0[np.ix_(ri, ci)]                   # label-based access: the order of the labels is not part of the property
    for i, a in enumerate(keys):
        for j, b in enumerate(keys):
            ctx.count("cells_compared")
            if i == j:
                if A[i, j] == A[i, j]:
                    ctx.violation("pc_grouped_cross:diagonal-defined", "diagonal entry is not undefined (NaN)", A[i, j], "nan")
                    return
                continue
            want = float(O.pc_cross(_vals(g[a], cols, on), _vals(g[b], cols, on)))
            if not _eq(A[i, j], want):
                ctx.violation("pc_grouped_cross:wrong", f"[{a},{b}] is not pc(group {a}, group {b})", A[i, j], want)
                return
            if not _eq(A[i, j], A[j, i]):
                ctx.violation("pc_grouped_cross:asymmetric", "matrix is not symmetric", A[i, j], A[j, i])
                return


def _pcdelta(xs, ys, bins, normalize=True):
    if bins == 0:
        if ys is None:
            return [_f(O.pc_pairs(xs))]
        return [_f(O.pc_cross(xs, ys))]
    if ys is None:
        d = [O.lev(xs[i], xs[j]) for i in range(len(xs)) for j in range(i + 1, len(xs))]
    else:
        d = [O.lev(a, b) for a in xs for b in ys]
    h = O.hist(d, bins)
    if not normalize:
        return [float(x) for x in h]
    t = sum(h)
    return [x / t if t else float("nan") for x in h]


def k_pcdelta_grouped(ctx, rows, cols, by, seq, bins, normalize=True, pseudocount=0.0):
    import numpy as np
    import pyrepseq as prs
    g = _classes(ctx, rows, cols, by)
    keys = list(g)
    ctx.count("pcDelta_grouped_cases")
    if bins == 0:
        ctx.count("pcDelta_grouped_bins0")
    if len(g) >= 2:
        ctx.nontriv(["pdg", rows, by, seq, bins, normalize])
    ctx.sample("pcDelta_grouped" + (":bins0" if bins == 0 else ""), {"rows": rows[:6], "by": by, "bins": bins})
    kw = {"bins": bins}
    if not normalize:
        kw["normalize"] = False
    if pseudocount:
        kw["pseudocount"] = pseudocount
        ctx.count("pcDelta_grouped_kwargs_forwarded")
    out = ctx.call(prs.pcDelta_grouped, _df(rows, cols), by, seq, **kw)
    form = "bins0" if bins == 0 else "edges"
    if not out.ok:
        ctx.violation(f"pcDelta_grouped:{form}:raised", "raised", out.describe(), None)
        return
    R = out.value
    want = [_pcdelta(_vals(g[k], cols, seq), None, bins, normalize) for k in keys]
    if pseudocount and bins != 0:
        want = []
        for k in keys:
            xs = _vals(g[k], cols, seq)
            h = O.hist([O.lev(xs[i], xs[j]) for i in range(len(xs)) for j in range(i + 1, len(xs))], bins)
            t = sum(h)
            want.append([(x + pseudocount) / (t + 2 * pseudocount) for x in h])
    try:
        A = np.asarray(R.values, dtype=float).reshape(len(R), -1)
        labels = [_plain(x) for x in list(R.index)]
    except Exception as e:
        ctx.violation(f"pcDelta_grouped:{form}:malformed", f"result is not a groups x bins table: {e}", R, want)
        return
    pk = [_plain(k) for k in keys]
    if sorted(map(repr, labels)) == sorted(map(repr, pk)) and A.shape == (len(keys), len(want[0])):
        A = A[[labels.index(k) for k in pk], :]
        labels = list(keys)
    if labels != keys or A.shape != (len(keys), len(want[0])):
        ctx.violation(f"pcDelta_grouped:{form}:shape", "result does not have one row per group and one column per bin",
                      {"labels": [str(x) for x in labels], "shape": list(A.shape)}, {"labels": [str(k) for k in keys], "shape": [len(keys), len(want[0])]})
        return
    for i, k in enumerate(keys):
        for j in range(len(want[i])):
            ctx.count("cells_compared")
            if not _eq(A[i, j], want[i][j]):
                ctx.violation(f"pcDelta_grouped:{form}:wrong", f"group {k} bin {j}: not the pcDelta of that group alone", A[i].tolist(), want[i])
                return
    if bins != 0 and list(R.columns) != list(bins[:-1]):
        ctx.count("pcDelta_grouped_columns_not_left_edges")          # how the bins are labelled is not part of the property: observation only


def k_pcdelta_cross(ctx, rows, cols, by, seq, bins, condensed):
    import itertools
    import numpy as np
    import pyrepseq as prs
    g = _classes(ctx, rows, cols, by)
    keys = list(g)
    if condensed:
        ctx.count("pcDelta_grouped_cross_condensed")
    else:
        ctx.count("pcDelta_grouped_cross_square_bins0")
    if len(g) >= 2:
        ctx.nontriv(["pdc", rows, by, seq, bins, condensed])
    ctx.sample("pcDelta_grouped_cross:" + ("condensed" if condensed else "square"), {"rows": rows[:6], "by": by, "bins": bins})
    out = ctx.call(prs.pcDelta_grouped_cross, _df(rows, cols), by, seq, condensed=condensed, bins=bins)
    form = ("condensed" if condensed else "square") + (":bins0" if bins == 0 else ":edges")
    if not out.ok:
        ctx.violation(f"pcDelta_grouped_cross:{form}:raised", "raised", out.describe(), None)
        return
    R = out.value
    pairs = list(itertools.combinations(keys, 2))
    if condensed:
        want = [_pcdelta(_vals(g[a], cols, seq), _vals(g[b], cols, seq), bins) for a, b in pairs]
        A = np.asarray(R.values, dtype=float).reshape(len(R), -1) if len(R) else np.zeros((0, 0))
        if len(pairs) == 0:
            if len(R) != 0:
                ctx.violation(f"pcDelta_grouped_cross:{form}:shape", "single group must give an empty condensed table", len(R), 0)
            return
        labels = [tuple(x) for x in R.index]
        if labels != [tuple(p) for p in pairs] or A.shape != (len(pairs), len(want[0])):
            ctx.violation(f"pcDelta_grouped_cross:{form}:shape", "rows are not the sorted group pairs / columns not the bins",
                          [str(x) for x in labels], [str(p) for p in pairs])
            return
        for i, p in enumerate(pairs):
            for j in range(len(want[i])):
                ctx.count("cells_compared")
                if not _eq(A[i, j], want[i][j]):
                    ctx.violation(f"pcDelta_grouped_cross:{form}:wrong", f"pair {p} bin {j}: not the two-collection pcDelta of the two groups",
                                  A[i].tolist(), want[i])
                    return
    else:
        A = np.asarray(R.values, dtype=float)
        labels = [_plain(x) for x in list(R.index)]
        if labels != [_plain(k) for k in keys] or A.shape != (len(keys), len(keys)):
            ctx.violation(f"pcDelta_grouped_cross:{form}:shape", "square form is not groups x groups with sorted labels", [str(x) for x in labels], [str(k) for k in keys])
            return
        for i, a in enumerate(keys):
            for j, b in enumerate(keys):
                ctx.count("cells_compared")
                if i == j:
                    want = _pcdelta(_vals(g[a], cols, seq), None, bins)[0]
                    what = "diagonal"
                else:
                    want = _pcdelta(_vals(g[a], cols, seq), _vals(g[b], cols, seq), bins)[0]
                    what = "off-diagonal"
                if not _eq(A[i, j], want):
                    ctx.violation(f"pcDelta_grouped_cross:{form}:{what}-wrong", f"[{a},{b}] is not the {'within-group' if i == j else 'cross-group'} value",
                                  A[i, j], want)
                    return


def k_renyi(ctx, rows, cols, features, by=None, base=2.0, weights=None):
    import pyrepseq as prs
    ctx.count("renyi_cases")
    if by:
        ctx.count("renyi_conditional")
        _classes(ctx, rows, cols, by)
        p = _pc_conditional(rows, cols, by, features, weights)
    else:
        p = _f(O.pc_pairs(_vals(rows, cols, features)))
    if p != p:
        want = float("nan")
    elif p == 0:
        want = float("inf")
    else:
        want = -math.log(p) / (math.log(base) if base is not None else 1.0)
    if p == 0:
        ctx.count("renyi_pc_exactly_zero")
    ctx.nontriv(["ren", rows, features, by, base, weights])
    ctx.sample("renyi2_entropy", {"rows": rows[:6], "features": features, "by": by, "base": base, "expected": want})
    kw = {"base": base}
    if by:
        kw["by"] = by
    if weights is not None:
        kw["group_weights"] = list(weights)
    out = ctx.call(prs.renyi2_entropy, _df(rows, cols), features, **kw)
    form = "conditional" if by else ("joint" if isinstance(features, list) else "plain")
    if not out.ok:
        ctx.violation(f"renyi2_entropy:{form}:raised", "raised", out.describe(), want)
    elif not _eq(out.value, want):
        ctx.violation(f"renyi2_entropy:{form}:wrong", f"not -log_base({p}) of the corresponding coincidence probability", out.value, want)
    ctx.count("cells_compared")


def k_stdrenyi(ctx, rows, cols, features, base=2.0):
    import collections
    import pyrepseq as prs
    vals = _vals(rows, cols, features)
    counts = list(collections.Counter(vals).values())
    if sum(counts) < 4:
        ctx.count("stdrenyi_too_few_rows")
        return          # the variance estimator needs N >= 4
    p = O.U2(counts)
    var = p * p - O.U22(counts)
    ctx.count("stdrenyi_cases")
    ctx.nontriv(["std", rows, features, base])
    ctx.sample("stdrenyi2_entropy", {"rows": rows[:6], "features": features, "base": base})
    if p == 0 or var <= 0:
        return          # undefined (division by zero / sqrt of a non-positive estimate): nothing demanded
    want = math.sqrt(float(var)) / (float(p) * (math.log(base) if base is not None else 1.0))
    out = ctx.call(prs.stdrenyi2_entropy, _df(rows, cols), features, base=base)
    form = "joint" if isinstance(features, list) else "plain"
    if not out.ok:
        ctx.violation(f"stdrenyi2_entropy:{form}:raised", "raised", out.describe(), want)
    elif not _eq(out.value, want, 1e-8):
        ctx.violation(f"stdrenyi2_entropy:{form}:wrong", "not stdpc / (pc * ln base)", out.value, want)
    ctx.count("cells_compared")


KINDS = {"pgc_big": k_pgc_big, "pc_conditional": k_pc_conditional, "pc_grouped_cross": k_pc_grouped_cross, "pcDelta_grouped": k_pcdelta_grouped,
         "pcDelta_grouped_cross": k_pcdelta_cross, "renyi": k_renyi, "stdrenyi": k_stdrenyi}

COLS = ["g1", "g2", "seq", "f"]
WIT = [["b", 3, "AA", "x"], ["a", 1, "AB", "y"], ["b", 3, "AA", "x"], ["a", 2, "AC", "y"], ["c", 1, "AA", "z"], ["b", 1, "AB", "x"],
       ["a", 2, "AB", "y"], ["d", 2, "CAB", "x"], ["d", 3, "CAB", "x"], ["b", 2, "A", "y"]]
BINSETS = [[0, 1, 2, 3], [0, 1, 2, 5, 9], [0, 2], [1, 2, 4]]


def _rand_table(rng, n):
    keys1 = rng.choice([["b", "a", "c"], ["k2", "k10", "k1", "k3"], ["x"], ["b", "a"]])
    keys2 = rng.choice([[3, 1, 2], [10, 2], [1.5, 0.5, 2.5]])
    seqs = rng.choice([["AA", "AB", "AC", "A", "CAB"], ["CASF", "CASSF", "CAWF", "CAF"]])
    feats = ["x", "y", "z"]
    rows = [[rng.choice(keys1), rng.choice(keys2), rng.choice(seqs), rng.choice(feats)] for _ in range(n)]
    if rng.random() < 0.5:
        rows.append(["zz_single".replace("_", ""), 99, rng.choice(seqs), "x"])
    if n > 3:
        rows[1] = list(rows[0])
    return rows


def _weights_for(rows, by, rng):
    g = {k: v for k, v in _groups(rows, COLS, by).items() if len(v) >= 2}
    return [rng.randint(1, 5) for _ in g] if g else None


def _all_for(rows, rng, must):
    for by in ("g1", "g2", ["g1"], ["g1", "g2"]):
        for on in ("seq", ["seq", "f"]):
            yield "pc_conditional", {"rows": rows, "cols": COLS, "by": by, "on": on}, must
            w = _weights_for(rows, by, rng)
            if w:
                yield "pc_conditional", {"rows": rows, "cols": COLS, "by": by, "on": on, "weights": w}, must
        yield "pc_grouped_cross", {"rows": rows, "cols": COLS, "by": by if isinstance(by, str) or len(by) > 1 else by[0], "on": "seq"}, must
        yield "pc_grouped_cross", {"rows": rows, "cols": COLS, "by": by if isinstance(by, str) or len(by) > 1 else by[0], "on": ["seq", "f"]}, must
    for by in ("g1", "g2", ["g1", "g2"]):
        for bins in BINSETS + [0]:
            yield "pcDelta_grouped", {"rows": rows, "cols": COLS, "by": by, "seq": "seq", "bins": bins}, must
            yield "pcDelta_grouped_cross", {"rows": rows, "cols": COLS, "by": by, "seq": "seq", "bins": bins, "condensed": True}, must
        yield "pcDelta_grouped", {"rows": rows, "cols": COLS, "by": by, "seq": "seq", "bins": [0, 1, 2, 3], "normalize": False}, must
        yield "pcDelta_grouped", {"rows": rows, "cols": COLS, "by": by, "seq": "seq", "bins": [0, 1, 2, 5], "pseudocount": 0.5}, must
        yield "pcDelta_grouped_cross", {"rows": rows, "cols": COLS, "by": by, "seq": "seq", "bins": 0, "condensed": False}, must
    for base in (2.0, math.e, 10.0, None):
        yield "renyi", {"rows": rows, "cols": COLS, "features": "seq", "base": base}, must
        yield "renyi", {"rows": rows, "cols": COLS, "features": ["seq", "f"], "base": base}, must
        yield "renyi", {"rows": rows, "cols": COLS, "features": "seq", "by": "g1", "base": base}, must
        yield "renyi", {"rows": rows, "cols": COLS, "features": ["seq", "f"], "by": ["g1", "g2"], "base": base}, must
        yield "stdrenyi", {"rows": rows, "cols": COLS, "features": "seq", "base": base}, must
        yield "stdrenyi", {"rows": rows, "cols": COLS, "features": ["seq", "f"], "base": base}, must
    w = _weights_for(rows, "g1", rng)
    if w:
        yield "renyi", {"rows": rows, "cols": COLS, "features": "seq", "by": "g1", "base": 2.0, "weights": w}, must


def generate(tier, seed):
    rng = random.Random(13000 + seed)
    thorough = tier == "thorough"
    yield from _all_for(WIT, rng, True)
    yield "pgc_big", {"mult": 3000 if not thorough else 47000, "np_seed": 13300 + seed}, True
    # missing feature cells inside small groups (a missing cell is one distinct empty value; the rows still count as members)
    holes = [["a", 1, "AA", None], ["a", 1, "AA", "x"], ["b", 2, "AC", None], ["b", 2, "AC", None], ["c", 3, "AD", "y"], ["c", 3, "AD", None], ["c", 3, "AD", "y"],
             ["d", 4, "AE", None]]
    for by in ("g1", ["g1", "g2"]):
        yield "pc_conditional", {"rows": holes, "cols": COLS, "by": by, "on": ["seq", "f"]}, True
        yield "pc_conditional", {"rows": holes, "cols": COLS, "by": by, "on": ["seq", "f"], "weights": [1, 2, 3]}, True
        yield "pc_grouped_cross", {"rows": holes, "cols": COLS, "by": by if isinstance(by, str) else by, "on": ["seq", "f"]}, True
    yield "renyi", {"rows": holes, "cols": COLS, "features": ["seq", "f"], "by": "g1", "base": 2.0}, True
    # bin edges that start above 0 / at fractional values, with duplicated sequences in the groups
    dups = [["a", 1, "CASF", "x"], ["a", 1, "CASF", "x"], ["a", 1, "CASSF", "y"], ["b", 2, "CAWF", "x"], ["b", 2, "CAWF", "z"], ["b", 2, "CAWF", "w"], ["b", 2, "CAF", "w"]]
    for bins in ([1, 2, 3, 4, 5, 6], [0.5, 1.5, 2.5], [2, 4]):
        yield "pcDelta_grouped", {"rows": dups, "cols": COLS, "by": "g1", "seq": "seq", "bins": bins}, True
        yield "pcDelta_grouped", {"rows": dups, "cols": COLS, "by": "g1", "seq": "seq", "bins": bins, "normalize": False}, True
        yield "pcDelta_grouped_cross", {"rows": dups, "cols": COLS, "by": "g1", "seq": "seq", "bins": bins, "condensed": True}, True
    distinct = [["a", 1, "AA", "x"], ["a", 1, "AB", "y"], ["b", 2, "AC", "x"], ["b", 2, "AD", "z"], ["a", 2, "BA", "w"]]      # pc exactly 0
    for base in (2.0, 10.0, None):
        yield "renyi", {"rows": distinct, "cols": COLS, "features": "seq", "base": base}, True
        yield "renyi", {"rows": distinct, "cols": COLS, "features": ["seq", "f"], "base": base}, True
        yield "renyi", {"rows": distinct, "cols": COLS, "features": "seq", "by": "g1", "base": base}, True
    if thorough:
        yield from _all_for(WIT[:5], rng, True)
        yield from _all_for([r for r in WIT if r[0] == "b"], rng, True)
    n_tab = 120 * TS if thorough else 6
    for i in range(n_tab):
        rows = _rand_table(rng, rng.randint(3, 30))
        items = list(_all_for(rows, rng, i < 2))
        if not thorough:
            items = rng.sample(items, 30)
        for it in items:
            yield it
