"""C07 - Hamming mode returns exactly the equal-length pairs within max_edits mismatches."""
import collections
import itertools
import random

from vmon import gens as G
from vmon.gens import THOROUGH_SCALE as TS
from vmon import oracles as O
from vmon import search as S

PID = "C07"
RULE = ("each case = one amino-acid string collection (arbitrary mixture and ordering of lengths) x max_edits x "
        "engines, all called with custom_distance='hamming'; results compared with the double-loop Hamming oracle "
        "(infinite for unequal lengths), positions referring to the input order. Exhaustive: all 720 orderings of a "
        "6-element list with three length classes; whole small universes. Cross cases: symdel(seqs2=) and "
        "SymdelDB.lookup in Hamming mode. distinct_nontrivial = distinct inputs with a non-empty expected set.")
ASSUMPTIONS = ["20-letter amino-acid alphabet (kdtree / hash_based domain)",
               "hash_based Hamming ball: k<=2 on length<=8, k=3 on length<=4"]
EXHAUSTIVE = {"quick": ["720 orderings of a 6-element 3-length-class list x 4 engines", "all strings len<=4 over AC, k=1..4, 4 engines"],
              "thorough": ["720 orderings x 3 different base lists x 4 engines", "all strings len<=5 over ACD, k=1..3",
                           "all strings len<=4 over AC, k=1..4"]}
REQUIRE = {"hamming_after_default_first_lookup": 12, "ham_big_cases": 1, "inputs_lengths_not_grouped": 50, "inputs_with_shift_pairs": 5, "inputs_with_unequal_length_lev_close_pairs": 20,
           "kdtree_calls": 50, "hash_based_calls": 50, "symdel_calls": 50, "cross_cases": 12, "triplets_compared": 1000}
SHARDS = {"quick": 6, "thorough": 16}


def self_test():
    O.self_test()


def _classes(ctx, seqs, k):
    lens = [len(s) for s in seqs]
    grouped = all(lens[i] <= lens[i + 1] for i in range(len(lens) - 1))
    runs = [key for key, _ in itertools.groupby(lens)]
    if len(set(lens)) > 1 and (not grouped or len(runs) != len(set(runs))):
        ctx.count("inputs_lengths_not_grouped")
    shift = uneq = False
    n = min(len(seqs), 25)
    if n:
        for i in range(n):
            for j in range(i + 1, n):
                a, b = seqs[i], seqs[j]
                if len(a) == len(b):
                    if O.ham(a, b) > k >= O.lev(a, b):
                        shift = True
                elif O.lev(a, b) <= k:
                    uneq = True
    if shift:
        ctx.count("inputs_with_shift_pairs")
    if uneq:
        ctx.count("inputs_with_unequal_length_lev_close_pairs")


def k_ham_self(ctx, seqs, k, engines):
    exp = O.neigh_self(seqs, k, "ham")
    _classes(ctx, seqs, k)
    if exp:
        ctx.nontriv([seqs, k, engines])
    ctx.sample("ham_self", {"seqs": seqs[:10], "n": len(seqs), "k": k, "engines": engines, "expected_triplets": sum(exp.values())})
    for name in engines:
        out = ctx.call(S.engine(name), list(seqs), max_edits=k, custom_distance="hamming")
        ctx.count(f"{name}_calls")
        ok = S.expect_triplets(ctx, out, exp, name, "hamming-self")
        if not ok and out.ok and ctx.violations:
            # refine the witness text: right pair content but class-local positions?
            try:
                got = O.canon_triplets(out.value)
                if sum(got.values()) == sum(exp.values()) and len({len(s) for s in seqs}) > 1:
                    ctx.violations[-1]["message"] += " [same number of triplets as expected: positions look bucket-local]"
            except Exception:
                pass


def k_ham_cross(ctx, refs, queries, k):
    import pyrepseq.nn as nn
    exp = O.neigh_cross(queries, refs, k, "ham")
    if exp:
        ctx.nontriv(["X", refs, queries, k])
    ctx.count("cross_cases")
    ctx.sample("ham_cross", {"refs": refs[:8], "queries": queries[:8], "k": k, "hits": sum(exp.values())})
    out = ctx.call(nn.symdel, list(refs), max_edits=k, custom_distance="hamming", seqs2=list(queries))
    S.expect_triplets(ctx, out, exp, "symdel", "hamming-cross")
    out = ctx.call(nn.nearest_neighbor, list(refs), max_edits=k, custom_distance="hamming", seqs2=list(queries))
    S.expect_triplets(ctx, out, exp, "nearest_neighbor", "hamming-cross")
    db = ctx.call(nn.SymdelDB, list(refs), k)
    if db.ok:
        out = ctx.call(db.value.lookup, list(queries), custom_distance="hamming")
        S.expect_triplets(ctx, out, exp, "SymdelDB.lookup", "hamming-cross")
        # a default-mode lookup in between must not disturb a later Hamming lookup on the same object
        ctx.call(db.value.lookup, list(queries))
        out = ctx.call(db.value.lookup, list(queries), custom_distance="hamming")
        S.expect_triplets(ctx, out, exp, "SymdelDB.lookup", "hamming-cross-repeat")
        # a fresh object whose FIRST lookup is a default-mode one: the Hamming lookup that follows must not inherit anything from it
        db2 = ctx.call(nn.SymdelDB, list(refs), k)
        if db2.ok:
            ctx.count("hamming_after_default_first_lookup")
            ctx.call(db2.value.lookup, list(queries))
            out = ctx.call(db2.value.lookup, list(queries), custom_distance="hamming")
            S.expect_triplets(ctx, out, exp, "SymdelDB.lookup", "hamming-cross-after-default-first")
            out = ctx.call(db2.value.lookup, list(reversed(queries)), custom_distance="hamming")
            S.expect_triplets(ctx, out, O.neigh_cross(list(reversed(queries)), refs, k, "ham"), "SymdelDB.lookup", "hamming-cross-after-default-first-reversed")
    else:
        ctx.violation("SymdelDB:build:raised", "SymdelDB construction raised", db.describe(), None)
    ldb = ctx.call(nn.LookupDB, list(refs))
    if ldb.ok and k <= 2 and all(len(q) <= 8 for q in queries):
        out = ctx.call(ldb.value.lookup, list(queries), max_edits=k, custom_distance="hamming")
        S.expect_triplets(ctx, out, exp, "LookupDB.lookup", "hamming-cross")


def k_ham_big(ctx, n, np_seed, engines, n_cpu=None, lengths=None):
    """thousands / tens of thousands of sequences, max_edits = 1: the Hamming neighbours are the equal-length pairs of the
    large-input Levenshtein oracle (one substitution, or identical)"""
    rng = random.Random(np_seed)
    if lengths:
        # a few length classes of n sequences each (Hamming searches work per length class)
        seqs = []
        for L in lengths:
            roots = ["".join(rng.choice(G.AA) for _ in range(L)) for _ in range(max(1, n // 4))]
            for _ in range(n):
                r = list(rng.choice(roots))
                if rng.random() < 0.5:
                    r[rng.randrange(L)] = rng.choice(G.AA)
                seqs.append("".join(r))
        rng.shuffle(seqs)
    else:
        seqs = G.repertoire(rng, n, families=max(1, n // 3))
    exp = collections.Counter({t: 1 for t in O.neigh_self_k1_big(seqs) if len(seqs[t[0]]) == len(seqs[t[1]])})
    ctx.count("ham_big_cases")
    ctx.nontriv(["hbig", n, np_seed])
    ctx.sample("ham_big", {"n": n, "triplets": sum(exp.values()), "engines": engines})
    for name in engines:
        kw = {"n_cpu": n_cpu} if (n_cpu and name == "kdtree") else {}
        out = ctx.call(S.engine(name), list(seqs), max_edits=1, custom_distance="hamming", **kw)
        ctx.count(f"{name}_calls")
        S.expect_triplets(ctx, out, exp, name, "hamming-self-big" + ("-parallel" if kw else ""))


KINDS = {"ham_self": k_ham_self, "ham_cross": k_ham_cross, "ham_big": k_ham_big}
ALL4 = ["symdel", "nearest_neighbor", "hash_based", "kdtree"]


def generate(tier, seed):
    rng = random.Random(7000 + seed)
    thorough = tier == "thorough"
    bases = [["CAAA", "CADA", "CAAAD", "CAAAE", "CA", "CD"]]
    if thorough:
        bases += [["A", "C", "AC", "AD", "ACD", "ACE"], ["CASF", "CASW", "CAF", "CAW", "CAASF", "CAASW"]]
    for base in bases:
        for perm in itertools.permutations(base):
            yield "ham_self", {"seqs": list(perm), "k": 1, "engines": ALL4}, True
    u = G.universe("AC", 4)
    for k in (1, 2, 3, 4):
        yield "ham_self", {"seqs": u, "k": k, "engines": ALL4 if k <= 3 else ["symdel", "nearest_neighbor", "kdtree"]}, True
    ur = list(reversed(u))
    yield "ham_self", {"seqs": ur, "k": 1, "engines": ALL4}, True
    yield "ham_cross", {"refs": u, "queries": ur, "k": 2}, True
    if thorough:
        u = G.universe("ACD", 5)
        for k in (1, 2, 3):
            yield "ham_self", {"seqs": u, "k": k, "engines": ["symdel", "kdtree"] + (["hash_based"] if k == 1 else [])}, True
    # one residue repeated 255 / 256 / 257 times in equal-length partners (composition counts around 2^8)
    long256 = ["C" + "A" * 256 + "F", "C" + "A" * 255 + "G" + "F", "C" + "A" * 256 + "W", "A" * 258, "G" + "A" * 257, "C" + "A" * 255 + "GF"]
    for k in (1, 2):
        yield "ham_self", {"seqs": long256, "k": k, "engines": ["symdel", "nearest_neighbor", "kdtree"] + (["hash_based"] if k == 1 else [])}, True
    yield "ham_big", {"n": 5000, "np_seed": 7700 + seed, "engines": ["symdel", "kdtree"]}, True
    yield "ham_big", {"n": 2100, "lengths": [9, 12], "n_cpu": 2, "np_seed": 7702 + seed, "engines": ["kdtree"]}, True
    if thorough:
        yield "ham_big", {"n": 47500, "np_seed": 7701 + seed, "engines": ["symdel", "nearest_neighbor"]}, True
    # shift pairs: Levenshtein-close by a shift, Hamming-far
    shifts = ["ACACAC", "CACACA", "ACACA", "CACAC", "AACACA", "ACACAA", "ACAC", "CACA"]
    for k in (1, 2, 3):
        yield "ham_self", {"seqs": shifts, "k": k, "engines": ALL4}, True
    for s in (["A"], [""], ["", ""], ["A", ""], ["CASSF", "CASSF"]):
        yield "ham_self", {"seqs": s, "k": 1, "engines": ALL4}, True
    pools = [G.universe("AC", 5), G.universe("ACD", 4), G.universe("AWY", 4), G.universe("ACDW", 3)]
    n_rand = 5000 * TS if thorough else 300
    for i in range(n_rand):
        pool = pools[i % len(pools)]
        seqs = G.small_multiset(rng, pool, 1, 40)
        k = rng.choice([1, 1, 2, 2, 3])
        eng = ALL4 if k <= 2 or max(len(s) for s in seqs) <= 4 else ["symdel", "nearest_neighbor", "kdtree"]
        yield "ham_self", {"seqs": seqs, "k": k, "engines": eng}, i < 60
        if i % 3 == 0:
            q = G.small_multiset(rng, pool, 1, 15)
            yield "ham_cross", {"refs": seqs, "queries": q, "k": k}, i < 60
    n_rep = 300 * TS if thorough else 25
    for i in range(n_rep):
        n = rng.randint(30, 120) if not thorough else rng.randint(50, 300)
        seqs = G.repertoire(rng, n, families=max(2, n // rng.choice([4, 8])), lo=4, hi=9)
        k = rng.choice([1, 1, 2, 3])
        eng = ALL4 if k == 1 else ["symdel", "nearest_neighbor", "kdtree"]
        yield "ham_self", {"seqs": seqs, "k": k, "engines": eng}, i < 6
        if i % 2 == 0:
            cut = len(seqs) // 2
            yield "ham_cross", {"refs": seqs[:cut], "queries": seqs[cut:] + seqs[:4], "k": min(k, 2)}, i < 6
