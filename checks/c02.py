"""C02 - pc is the exact fraction of coinciding pairs (pc, pc_n, pc_joint, two-sample, tables)."""
import math
import random
from fractions import Fraction

from vmon import gens as G
from vmon.gens import THOROUGH_SCALE as TS
from vmon import oracles as O

PID = "C02"
RULE = ("each case = one sample (or pair of samples, or table); pc / pc_n / pc_joint are called and "
        "compared with exact Fraction pair counting; also permutation, injective relabelling (str/int/float), "
        "container and [0,1] relations. Exhaustive: every integer partition of N=2..12 (quick) / 2..16 (thorough) "
        "realised as a sample in three element types; every pair of count vectors with K<=3, N1,N2<=4. Random: tables of "
        "2-40 rows x 1-4 columns with collision-prone cells, numeric columns and missing cells. "
        "distinct_nontrivial = distinct canonical inputs whose exact pc is strictly between 0 and 1.")
ASSUMPTIONS = ["elements of one sample have one type; no trailing NUL characters; cells never contain '.' or '_'",
               "a missing cell and an empty-string cell are never put in the same column (the property does not order them)",
               "a 2-tuple is only passed in its documented legacy (alpha, beta) meaning",
               "floats compare with abs tolerance 1e-12 against the exact rational"]
EXHAUSTIVE = {"quick": ["integer partitions N=2..12 x 3 element types", "count-vector pairs K<=3, N1,N2<=4"],
              "thorough": ["integer partitions N=2..16 x 3 element types", "count-vector pairs K<=3, N1,N2<=5"]}
REQUIRE = {"buffer_refilled_checked": 420, "tables_edited_in_place": 28, "pc_one_sample_checked": 100, "pc_two_sample_checked": 100, "pc_table_checked": 30,
           "pc_joint_checked": 30, "pc_n_checked": 100, "tables_with_concat_collision": 3,
           "tables_with_missing": 3, "legacy_tuple_checked": 3, "legacy_tuple_nonlist_containers": 3, "relabel_checked": 100, "pc_n_with_zeros_checked": 100}
SHARDS = {"quick": 4, "thorough": 16}


def self_test():
    O.self_test()


def close(got, exp):
    try:
        g = float(got)
    except Exception:
        return False
    if exp is None:
        return g != g
    e = float(exp)
    return abs(g - e) <= 1e-12 + 1e-12 * abs(e)


def relabel(xs, how):
    order = {}
    for x in xs:
        order.setdefault(x, len(order))
    if how == "int":
        return [order[x] * 3 + 1 for x in xs]
    if how == "float":
        return [order[x] + 0.25 for x in xs]
    return [f"L{order[x]}x" for x in xs]


def _check_value(ctx, out, exp, key, msg, inp):
    if not out.ok:
        ctx.violation(f"{key}:raised:{type(out.exc).__name__}", f"{msg}: raised", out.describe(), str(exp), inp)
        return False
    if not close(out.value, exp):
        ctx.violation(f"{key}:wrong-value", f"{msg}: value differs from exact pair count",
                      out.value, f"{exp} = {float(exp) if exp is not None else 'nan'}", inp)
        return False
    if exp is not None and not (-1e-15 <= float(out.value) <= 1 + 1e-15):
        ctx.violation(f"{key}:out-of-range", f"{msg}: outside [0,1]", out.value, None, inp)
        return False
    return True


def k_sample(ctx, xs):
    import numpy as np
    import pandas as pd
    import pyrepseq as prs
    exp = O.pc_pairs(xs)
    if 0 < exp < 1:
        ctx.nontriv(["s", xs])
    ctx.sample("one_sample", {"xs": xs[:20], "exact": str(exp)})
    _check_value(ctx, ctx.call(prs.pc, list(xs)), exp, "pc:one-sample", "pc(list)", xs)
    ctx.count("pc_one_sample_checked")
    # permutation
    rng = random.Random(len(xs) * 31 + 7)
    ys = list(xs)
    rng.shuffle(ys)
    _check_value(ctx, ctx.call(prs.pc, ys), exp, "pc:one-sample:permuted", "pc(shuffled)", ys)
    # containers
    _check_value(ctx, ctx.call(prs.pc, np.array(xs)), exp, "pc:one-sample:ndarray", "pc(ndarray)", xs)
    _check_value(ctx, ctx.call(prs.pc, pd.Series(xs, index=range(3, 3 + len(xs)))), exp,
                 "pc:one-sample:series", "pc(Series shifted index)", xs)
    # one caller-owned buffer filled with another sample of the same size and used again: the answer is about the present content
    if len(xs) >= 2:
        buf = np.array(xs)
        first = ctx.call(prs.pc, buf)
        zs = list(xs)
        zs[0] = xs[-1] if xs[0] != xs[-1] else next((x for x in xs if x != xs[0]), xs[0])
        buf[0] = zs[0]
        if [str(v) for v in buf.tolist()] == [str(v) for v in np.array(zs).tolist()]:
            _check_value(ctx, first, exp, "pc:one-sample:buffer", "pc(buffer)", xs)
            _check_value(ctx, ctx.call(prs.pc, buf), O.pc_pairs(zs), "pc:one-sample:buffer-refilled", "pc(same ndarray object, content replaced in place)", zs)
            ctx.count("buffer_refilled_checked")
    # injective relabelling
    for how in ("int", "float", "str"):
        _check_value(ctx, ctx.call(prs.pc, relabel(xs, how)), exp, f"pc:one-sample:relabel-{how}",
                     f"pc(relabelled to {how})", relabel(xs, how))
        ctx.count("relabel_checked")
    # multiplicity vector
    counts = list(__import__("collections").Counter(xs).values())
    _check_value(ctx, ctx.call(prs.pc_n, np.array(counts)), exp, "pc_n", "pc_n(multiplicities)", counts)
    _check_value(ctx, ctx.call(prs.pc_n, list(counts)), exp, "pc_n:list", "pc_n(list of multiplicities)", counts)
    ctx.count("pc_n_checked")
    # empty classes (zeros) do not change the value - also when the vector is as long as the sample
    N = len(xs)
    for padded in (counts + [0], [0] + counts + [0, 0], (counts + [0] * N)[:max(N, len(counts))]):
        _check_value(ctx, ctx.call(prs.pc_n, np.array(padded)), exp, "pc_n:zeros", "pc_n(multiplicities with empty classes)", padded)
        ctx.count("pc_n_with_zeros_checked")


def k_two(ctx, xs, ys):
    import numpy as np
    import pyrepseq as prs
    exp = O.pc_cross(xs, ys)
    if 0 < exp < 1:
        ctx.nontriv(["t", xs, ys])
    ctx.sample("two_sample", {"xs": xs[:12], "ys": ys[:12], "exact": str(exp)})
    _check_value(ctx, ctx.call(prs.pc, list(xs), list(ys)), exp, "pc:two-sample", "pc(a, b)", [xs, ys])
    _check_value(ctx, ctx.call(prs.pc, list(ys), list(xs)), exp, "pc:two-sample:swapped", "pc(b, a)", [ys, xs])
    _check_value(ctx, ctx.call(prs.pc, np.array(xs), np.array(ys)), exp, "pc:two-sample:ndarray", "pc(arrays)", [xs, ys])
    both = list(dict.fromkeys(list(xs) + list(ys)))
    m = {v: f"Q{i}q" for i, v in enumerate(both)}
    _check_value(ctx, ctx.call(prs.pc, [m[x] for x in xs], [m[y] for y in ys]), exp,
                 "pc:two-sample:relabel", "pc(a, b) relabelled", [xs, ys])
    ctx.count("pc_two_sample_checked")


def _frame(rows, cols, kinds):
    import pandas as pd
    data = {}
    for ci, c in enumerate(cols):
        col = [r[ci] for r in rows]
        if kinds[ci] == "num":
            data[c] = pd.Series([float("nan") if v is None else v for v in col], dtype=float)
        else:
            data[c] = pd.Series(col, dtype=object)
    return pd.DataFrame(data)


def _rowkey(r):
    return tuple("" if v is None else v for v in r)


def k_table(ctx, rows, cols, kinds, rows2=None):
    import pyrepseq as prs
    df = _frame(rows, cols, kinds)
    keys = [_rowkey(r) for r in rows]
    exp = O.pc_pairs(keys)
    if exp is not None and 0 < exp < 1:
        ctx.nontriv(["tab", rows, cols])
    has_missing = any(v is None for r in rows for v in r)
    if has_missing:
        ctx.count("tables_with_missing")
    cat = ["".join(str(v) for v in k) for k in keys]
    if len(cols) > 1 and O.pc_pairs(cat) != exp:
        ctx.count("tables_with_concat_collision")
    if "num" in kinds:
        ctx.count("tables_with_numeric_column")
    ctx.sample("table", {"cols": cols, "kinds": kinds, "rows": rows[:8], "exact": str(exp)})
    tag = "missing" if has_missing else "complete"
    _check_value(ctx, ctx.call(prs.pc, df), exp, f"pc:table:{tag}", "pc(table)", rows)
    ctx.count("pc_table_checked")
    _check_value(ctx, ctx.call(prs.pc_joint, df, list(cols)), exp, f"pc_joint:{tag}", "pc_joint(table, all columns)", rows)
    ctx.count("pc_joint_checked")
    # a column subset: pc(df[sub]) == pc_joint(df, sub) == oracle on the projected rows
    if len(cols) > 1:
        sub = list(cols[: len(cols) - 1])
        idx = [cols.index(c) for c in sub]
        exp_sub = O.pc_pairs([tuple(k[i] for i in idx) for k in keys])
        _check_value(ctx, ctx.call(prs.pc_joint, df, sub), exp_sub, f"pc_joint:subset:{tag}", "pc_joint(subset)", rows)
        _check_value(ctx, ctx.call(prs.pc, df[sub]), exp_sub, f"pc:table:subset:{tag}", "pc(df[subset])", rows)
    # shuffled rows with a non-default index
    perm = list(range(len(rows)))
    random.Random(len(rows)).shuffle(perm)
    df_p = df.iloc[perm]
    _check_value(ctx, ctx.call(prs.pc, df_p), exp, f"pc:table:permuted:{tag}", "pc(table rows permuted)", rows)
    _check_value(ctx, ctx.call(prs.pc_joint, df_p, list(cols)), exp, f"pc_joint:permuted:{tag}", "pc_joint(rows permuted)", rows)
    # the caller edits the table in place (same object, same shape) and asks again
    if len(rows) >= 2 and _rowkey(rows[0]) != _rowkey(rows[-1]):
        df_e = _frame(rows, cols, kinds)
        ctx.call(prs.pc, df_e)
        ctx.call(prs.pc_joint, df_e, list(cols))
        for ci in range(len(cols)):
            df_e.iat[0, ci] = df_e.iat[len(rows) - 1, ci]
        rows_e = [list(rows[-1])] + [list(r) for r in rows[1:]]
        exp_e = O.pc_pairs([_rowkey(r) for r in rows_e])
        _check_value(ctx, ctx.call(prs.pc, df_e), exp_e, f"pc:table:edited-in-place:{tag}", "pc(same table object after an in-place edit)", rows_e)
        _check_value(ctx, ctx.call(prs.pc_joint, df_e, list(cols)), exp_e, f"pc_joint:edited-in-place:{tag}",
                     "pc_joint(same table object after an in-place edit)", rows_e)
        ctx.count("tables_edited_in_place")
    if rows2 is not None:
        df2 = _frame(rows2, cols, kinds)
        keys2 = [_rowkey(r) for r in rows2]
        exp2 = O.pc_cross(keys, keys2)
        has2 = has_missing or any(v is None for r in rows2 for v in r)
        tag2 = "missing" if has2 else "complete"
        _check_value(ctx, ctx.call(prs.pc, df, df2), exp2, f"pc:two-tables:{tag2}", "pc(table, table2)", [rows, rows2])
        _check_value(ctx, ctx.call(prs.pc_joint, df, list(cols), df2), exp2, f"pc_joint:two-tables:{tag2}",
                     "pc_joint(table, cols, table2)", [rows, rows2])
        ctx.count("pc_two_tables_checked")


def k_legacy(ctx, alpha, beta, alpha2=None, beta2=None, ca="list", cb="list"):
    import pandas as pd
    import pyrepseq as prs
    keys = list(zip(alpha, beta))
    exp = O.pc_pairs(keys)
    ctx.sample("legacy_tuple", {"alpha": alpha[:8], "beta": beta[:8], "exact": str(exp), "containers": [ca, cb]})
    _check_value(ctx, ctx.call(prs.pc, (list(alpha), list(beta))), exp, "pc:legacy-tuple", "pc((alpha, beta))", keys)
    if (ca, cb) != ("list", "list"):
        # the two chains are paired by position whatever containers (and index labels) carry them
        ctx.count("legacy_tuple_nonlist_containers")
        _check_value(ctx, ctx.call(prs.pc, (G.make_container(ca, alpha), G.make_container(cb, beta))), exp,
                     f"pc:legacy-tuple:containers", f"pc(({ca}, {cb}))", keys)
    df = pd.DataFrame({"CDR3A": alpha, "CDR3B": beta})
    _check_value(ctx, ctx.call(prs.pc, df), exp, "pc:table:complete", "pc(two-column table)", keys)
    if alpha2 is not None:
        exp2 = O.pc_cross(keys, list(zip(alpha2, beta2)))
        _check_value(ctx, ctx.call(prs.pc, (list(alpha), list(beta)), (list(alpha2), list(beta2))), exp2,
                     "pc:legacy-tuple:two-sample", "pc((a,b),(a2,b2))", [keys])
    ctx.count("legacy_tuple_checked")


KINDS = {"sample": k_sample, "two": k_two, "table": k_table, "legacy": k_legacy}

CELLS = ["A", "B", "AB", "BA", "C", "BC", "ABC", "", "CA"]
CELLS_NOEMPTY = [c for c in CELLS if c]


def _realise(part, etype):
    xs = []
    for i, m in enumerate(part):
        v = {"str": f"v{i}", "int": i * 2 + 1, "float": i + 0.5}[etype]
        xs += [v] * m
    return xs


def _rand_table(rng, nrows, ncols):
    kinds = [rng.choice(["str", "str", "str", "num"]) for _ in range(ncols)]
    miss_cols = [rng.random() < 0.3 for _ in range(ncols)]
    rows = []
    base = []
    for _ in range(max(1, nrows // 3)):
        r = []
        for ci in range(ncols):
            if kinds[ci] == "num":
                r.append(rng.choice([0, 1, 2, 10, 2.5, 1e6, -3]))
            else:
                r.append(rng.choice(CELLS_NOEMPTY if miss_cols[ci] else CELLS))
        base.append(r)
    for _ in range(nrows):
        r = list(rng.choice(base))
        for ci in range(ncols):
            if miss_cols[ci] and rng.random() < 0.25:
                r[ci] = None
            elif rng.random() < 0.15:
                r[ci] = rng.choice([0, 1, 2, 10, 2.5]) if kinds[ci] == "num" else \
                    rng.choice(CELLS_NOEMPTY if miss_cols[ci] else CELLS)
        rows.append(r)
    cols = ["c%d" % i for i in range(ncols)]
    return rows, cols, kinds


def generate(tier, seed):
    rng = random.Random(2000 + seed)
    thorough = tier == "thorough"
    nmax = 16 if thorough else 12
    for N in range(2, nmax + 1):
        for part in G.partitions(N):
            for etype in ("str", "int", "float"):
                xs = _realise(part, etype)
                random.Random(N).shuffle(xs)
                yield "sample", {"xs": xs}, True
    nn = 5 if thorough else 4
    vecs = [v for N in range(1, nn + 1) for v in G.count_vectors(N, 3)]
    for a in vecs:
        for b in vecs:
            # labels of different widths that are prefixes of each other (fixed-width string arrays must not truncate either sample)
            lab = ["CAS", "CASS", "CASSLG"]
            xs = [lab[i] for i, m in enumerate(a) for _ in range(m)]
            ys = [lab[i] for i, m in enumerate(b) for _ in range(m)]
            yield "two", {"xs": xs, "ys": ys}, True
    # integers against non-integral floats, and the reverse
    yield "two", {"xs": [1, 2, 2, 3], "ys": [1.5, 2.0, 2.5, 2.0]}, True
    yield "two", {"xs": [1.5, 2.0, 2.5], "ys": [1, 2, 2, 3]}, True
    yield "two", {"xs": [1, 1, 2], "ys": [1.25, 1.75]}, True
    yield "two", {"xs": ["CAF", "CAW"], "ys": ["CAFF", "CAWW", "CAF"]}, True
    yield "two", {"xs": ["CAFF", "CAWW", "CAF"], "ys": ["CAF", "CAW"]}, True
    # collision tables (deterministic witnesses of the separator's role)
    yield "table", {"rows": [["AB", "C"], ["A", "BC"], ["AB", "C"]], "cols": ["x", "y"], "kinds": ["str", "str"]}, True
    yield "table", {"rows": [["", "AB"], ["A", "B"], ["AB", ""]], "cols": ["x", "y"], "kinds": ["str", "str"]}, True
    # numeric cells that agree in their first six significant digits are different cells
    yield "table", {"rows": [[1000001.0, "A"], [1000002.0, "A"], [1000001.0, "A"], [0.12345671, "A"], [0.12345672, "A"], [16777216.0, "B"], [16777217.0, "B"]],
                    "cols": ["x", "y"], "kinds": ["num", "str"]}, True
    yield "table", {"rows": [[1000001, None], [1000002, None], [None, 3.0], [1000001, None]], "cols": ["x", "y"], "kinds": ["num", "num"]}, True
    # cells that differ only by a trailing NUL / control character are different cells
    yield "table", {"rows": [["AB\x00", "C"], ["AB", "C"], ["AB", "C\x00"], ["AB", "C"], ["AB\n", "C"]], "cols": ["x", "y"], "kinds": ["str", "str"]}, True
    yield "table", {"rows": [["A\x00"], ["A"], ["A\x00\x00"], ["A\x00"]], "cols": ["x"], "kinds": ["str"]}, True
    yield "table", {"rows": [["A", None], ["A", None], ["A", "B"], [None, "A"]], "cols": ["x", "y"], "kinds": ["str", "str"]}, True
    yield "table", {"rows": [[1, "1"], [1, "1"], [11, ""], [1, "11"]], "cols": ["x", "y"], "kinds": ["num", "str"]}, True
    # one table has a column that is missing everywhere (e.g. beta-only data next to paired data)
    yield "table", {"rows": [["A", None], ["B", None], ["A", None]], "rows2": [["A", "X"], ["A", None], ["B", None]], "cols": ["x", "y"], "kinds": ["str", "str"]}, True
    yield "table", {"rows": [[None, "A"], [None, "B"]], "rows2": [["A", None], ["B", None], [None, "A"]], "cols": ["x", "y"], "kinds": ["str", "str"]}, True
    yield "table", {"rows": [[1, None], [2, None], [1, None]], "rows2": [[1, 5], [1, None]], "cols": ["x", "y"], "kinds": ["num", "num"]}, True
    n_tab = 4000 * TS if thorough else 220
    for i in range(n_tab):
        nrows = rng.randint(2, 40)
        ncols = rng.randint(1, 4)
        rows, cols, kinds = _rand_table(rng, nrows, ncols)
        p = {"rows": rows, "cols": cols, "kinds": kinds}
        if i % 3 == 0:
            rows2 = [list(rng.choice(rows)) if rng.random() < 0.6 else _rand_table(rng, 1, ncols)[0][0]
                     for _ in range(rng.randint(1, 12))]
            # keep column kinds consistent
            for r in rows2:
                for ci in range(ncols):
                    if kinds[ci] == "num" and isinstance(r[ci], str):
                        r[ci] = 1
                    if kinds[ci] == "str" and not (r[ci] is None or isinstance(r[ci], str)):
                        r[ci] = "A"
            # guard: no missing together with "" in one column
            for ci in range(ncols):
                colvals = [r[ci] for r in rows + rows2]
                if None in colvals and "" in colvals:
                    for r in rows2:
                        if r[ci] == "":
                            r[ci] = "A"
                        if r[ci] is None and "" in [x[ci] for x in rows]:
                            r[ci] = "A"
            p["rows2"] = rows2
        yield "table", p, i < 60
    n_leg = 300 * TS if thorough else 30
    for i in range(n_leg):
        n = rng.randint(2, 25)
        alpha = [rng.choice(CELLS_NOEMPTY) for _ in range(n)]
        beta = [rng.choice(CELLS_NOEMPTY) for _ in range(n)]
        p = {"alpha": alpha, "beta": beta}
        conts = ["list", "ndarray_U", "series_default", "series_shifted", "series_permuted", "series_string"]
        p["ca"], p["cb"] = conts[i % len(conts)], conts[(i // 2 + 3) % len(conts)]
        if i % 2:
            m = rng.randint(1, 10)
            p["alpha2"] = [rng.choice(CELLS_NOEMPTY) for _ in range(m)]
            p["beta2"] = [rng.choice(CELLS_NOEMPTY) for _ in range(m)]
        yield "legacy", p, i < 10
    # random larger samples
    n_s = 3000 * TS if thorough else 200
    for i in range(n_s):
        n = rng.randint(2, 200)
        kcat = rng.randint(1, max(1, n // 2))
        etype = rng.choice(["str", "int", "float"])
        xs = [{"str": f"s{j}", "int": j, "float": j / 4}[etype] for j in (rng.randrange(kcat) for _ in range(n))]
        yield "sample", {"xs": xs}, i < 30
        if i % 2 == 0:
            m = rng.randint(1, 60)
            ys = [{"str": f"s{j}", "int": j, "float": j / 4}[etype] for j in (rng.randrange(kcat + 2) for _ in range(m))]
            yield "two", {"xs": xs[:60], "ys": ys}, i < 30
