"""C16 - richness and overlap estimators follow their closed forms for every count vector."""
import itertools
import random
from fractions import Fraction

from vmon import gens as G
from vmon.gens import THOROUGH_SCALE as TS

TS = TS * 6          # this check is cheap per case: the thorough tier explores six times the common random workload
from vmon import oracles as O

PID = "C16"
RULE = ("vector cases: chao1, var_chao1, chao2, var_chao2 on every frequency-of-frequency vector of a block (length 1..4, entries 0..7, as "
        "list and as ndarray) compared with the closed forms in exact Fractions; NaN exactly where stated; never raising; defined "
        "estimate >= S_obs. set cases: jaccard_index / overlap / overlap_coefficient on lists, tuples, sets, ndarrays and Series with "
        "duplicates, shuffles and missing values (None/NaN; for jaccard_index only inside Series) against Python set algebra, plus "
        "symmetry. distinct_nontrivial = distinct vectors with f1>0 and f2>0, and distinct set pairs with a non-empty proper overlap.")
ASSUMPTIONS = ["elements of the two collections are of one type (str or int)", "ratio forms are given collections that are non-empty after removal of missing values"]
EXHAUSTIVE = {"quick": ["every vector of length 1..4 with entries 0..7 (4680 vectors) x {list, ndarray}"],
              "thorough": ["every vector of length 1..4 with entries 0..9 (11110 vectors) x {list, ndarray}", "every pair of subsets of a 4-element universe for the three set functions"]}
REQUIRE = {"tuple_element_cases": 4, "infinite_element_cases": 4, "vectors_checked": 4000, "f2_zero_vectors": 500, "f2_absent_vectors": 8, "var_defined_checked": 2000, "nan_cases_checked": 500,
           "set_cases": 41, "set_input_cases": 10, "series_with_missing_cases": 3, "list_with_missing_cases": 7, "duplicate_cases": 20, "sorted_numeric_duplicate_cases": 25}
SHARDS = {"quick": 4, "thorough": 8}


def self_test():
    O.self_test()


def _isnan(x):
    try:
        return float(x) != float(x)
    except Exception:
        return False


def _eq(got, want):
    if want is None:
        return _isnan(got)
    try:
        g = float(got)
    except Exception:
        return False
    w = float(want)
    return abs(g - w) <= 1e-9 * max(1.0, abs(w))


def _check(ctx, fn_name, out, want, vec, form):
    if not out.ok:
        ctx.violation(f"{fn_name}:{form}:raised:{type(out.exc).__name__}", f"{fn_name} raised (it must return a number or NaN)", out.describe(),
                      "nan" if want is None else str(want), {"counts": vec})
        return
    if not _eq(out.value, want):
        ctx.violation(f"{fn_name}:{form}:wrong", f"{fn_name}({vec}) differs from its closed form", out.value, "nan" if want is None else f"{want} = {float(want)}",
                      {"counts": vec})


def _one_vector(ctx, vec, as_array):
    import numpy as np
    import pyrepseq as prs
    c = np.array(vec) if as_array else list(vec)
    f1 = vec[0]
    f2 = vec[1] if len(vec) > 1 else None
    sobs = sum(vec)
    ctx.count("vectors_checked")
    if f2 is None:
        ctx.count("f2_absent_vectors")
    elif f2 == 0:
        ctx.count("f2_zero_vectors")
    if f1 > 0 and f2:
        ctx.nontriv(list(vec))
    form = "f2-absent" if f2 is None else ("f2-zero" if f2 == 0 else "f2-positive")
    # chao1
    want = Fraction(sobs) + (Fraction(f1 * f1, 2 * f2) if f2 else Fraction(f1 * (f1 - 1), 2))
    out = ctx.call(prs.chao1, c)
    _check(ctx, "chao1", out, want, list(vec), form)
    if out.ok and not _isnan(out.value) and float(out.value) < sobs - 1e-9:
        ctx.violation(f"chao1:{form}:below-observed", "estimate below the observed richness", out.value, sobs, {"counts": list(vec)})
    # chao2
    want2 = (Fraction(sobs) + Fraction(f1 * f1, 2 * f2)) if f2 else None
    out = ctx.call(prs.chao2, c, 5)
    _check(ctx, "chao2", out, want2, list(vec), form)
    # variances
    if f2:
        r = Fraction(f1, f2)
        wantv = f2 * (r * r / 2 + r ** 3 + r ** 4 / 4)
        ctx.count("var_defined_checked")
    else:
        wantv = None
        ctx.count("nan_cases_checked")
    _check(ctx, "var_chao1", ctx.call(prs.var_chao1, c), wantv, list(vec), form)
    _check(ctx, "var_chao2", ctx.call(prs.var_chao2, c, 5), wantv, list(vec), form)


def k_block(ctx, length, first, maxv):
    n = 0
    for rest in itertools.product(range(maxv + 1), repeat=length - 1):
        vec = (first,) + rest
        _one_vector(ctx, vec, False)
        _one_vector(ctx, vec, True)
        n += 1
    ctx.sample("block", {"length": length, "first_entry": first, "vectors": n, "example": [first] + [1] * (length - 1)})


def k_vector(ctx, vec):
    _one_vector(ctx, tuple(vec), False)
    _one_vector(ctx, tuple(vec), True)
    ctx.sample("vector", {"counts": vec})


def _build(kind, xs):
    import numpy as np
    import pandas as pd
    if kind == "list":
        return list(xs)
    if kind == "tuple":
        return tuple(xs)
    if kind == "set":
        return set(xs)
    if kind == "ndarray":
        return np.array(xs, dtype=object)
    if kind == "series":
        return pd.Series(list(xs), dtype=object, index=range(3, 3 + len(xs)))
    if kind == "series_float":
        return pd.Series(list(xs), dtype=float)
    if kind == "ndarray_float":
        return np.array(list(xs), dtype=float)
    raise KeyError(kind)


def _clean(xs):
    return {x for x in xs if x is not None and not (isinstance(x, float) and x != x)}


def k_sets(ctx, a, b, ka, kb, sorted_dup=False):
    """a, b: lists possibly with duplicates and missing markers (None / 'NaN' string token replaced by float nan)."""
    import pyrepseq as prs
    nan = float("nan")
    tok = {"__nan__": nan, "__inf__": float("inf"), "__-inf__": float("-inf")}

    def conv(x):
        if isinstance(x, list):
            return tuple(x)                      # an element that is itself a tuple (paired clonotype)
        return tok.get(x, x) if isinstance(x, str) else x
    A = [conv(x) for x in a]
    B = [conv(x) for x in b]
    if any(isinstance(x, float) and x in (float("inf"), float("-inf")) for x in A + B):
        ctx.count("infinite_element_cases")
    if any(isinstance(x, tuple) for x in A + B):
        ctx.count("tuple_element_cases")
    miss = any(x is None or x == "__nan__" for x in a + b)
    SA, SB = _clean(A), _clean(B)
    ctx.count("set_cases")
    if sorted_dup:
        ctx.count("sorted_numeric_duplicate_cases")
    if "set" in (ka, kb):
        ctx.count("set_input_cases")
    if miss and ("series" in (ka, kb) or "series_float" in (ka, kb)):
        ctx.count("series_with_missing_cases")
    if miss and ("list" in (ka, kb) or "tuple" in (ka, kb)):
        ctx.count("list_with_missing_cases")
    if len(a) != len(set(map(str, a))) or len(b) != len(set(map(str, b))):
        ctx.count("duplicate_cases")
    if SA & SB and (SA - SB or SB - SA):
        ctx.nontriv(["s", sorted(map(str, SA)), sorted(map(str, SB)), ka, kb])
    ctx.sample(f"sets:{ka}:{kb}", {"a": a[:8], "b": b[:8]})
    tag = f"{'missing' if miss else 'complete'}"
    for (x, kx, y, ky, order) in ((A, ka, B, kb, "ab"), (B, kb, A, ka, "ba")):
        X, Y = _build(kx, x), _build(ky, y)
        inp = "set-input" if "set" in (kx, ky) else "sequence-input"
        o = ctx.call(prs.overlap, X, Y)
        want = len(SA & SB)
        if not o.ok:
            ctx.violation(f"overlap:{inp}:{tag}:raised:{type(o.exc).__name__}", "overlap raised", o.describe(), want, {"kinds": [kx, ky]})
        elif o.value != want:
            ctx.violation(f"overlap:{inp}:{tag}:wrong", "overlap is not |A n B| after dropping missing values", o.value, want, {"a": a, "b": b})
        if SA and SB:
            X, Y = _build(kx, x), _build(ky, y)
            o = ctx.call(prs.overlap_coefficient, X, Y)
            wantc = len(SA & SB) / min(len(SA), len(SB))
            if not o.ok:
                ctx.violation(f"overlap_coefficient:{inp}:{tag}:raised:{type(o.exc).__name__}", "overlap_coefficient raised", o.describe(), wantc, {"kinds": [kx, ky]})
            elif not _eq(o.value, wantc):
                ctx.violation(f"overlap_coefficient:{inp}:{tag}:wrong", "overlap_coefficient is not |A n B| / min(|A|,|B|)", o.value, wantc, {"a": a, "b": b})
        # jaccard: missing values only inside Series (documented behaviour)
        x_has = any(v is None or (isinstance(v, float) and v != v) for v in x)
        y_has = any(v is None or (isinstance(v, float) and v != v) for v in y)
        if (not x_has or kx.startswith("series")) and (not y_has or ky.startswith("series")) and (SA or SB):
            X, Y = _build(kx, x), _build(ky, y)
            o = ctx.call(prs.jaccard_index, X, Y)
            wantj = len(SA & SB) / len(SA | SB)
            if not o.ok:
                ctx.violation(f"jaccard_index:{inp}:{tag}:raised:{type(o.exc).__name__}", "jaccard_index raised", o.describe(), wantj, {"kinds": [kx, ky]})
            elif not _eq(o.value, wantj):
                ctx.violation(f"jaccard_index:{inp}:{tag}:wrong", "jaccard_index is not |A n B| / |A u B|", o.value, wantj, {"a": a, "b": b})


KINDS = {"block": k_block, "vector": k_vector, "sets": k_sets}
KINDS_SET = ["list", "tuple", "set", "ndarray", "series"]


def generate(tier, seed):
    rng = random.Random(16000 + seed)
    thorough = tier == "thorough"
    maxv = 9 if thorough else 7
    for length in (1, 2, 3, 4):
        for first in range(maxv + 1):
            yield "block", {"length": length, "first": first, "maxv": maxv}, True
    # deep repertoires: tens and hundreds of thousands of singletons / doubletons (powers of f1 beyond 2^63)
    for vec in ([60000, 20000, 5], [548953, 6693, 800, 99], [100000, 1, 1], [55109, 2, 0, 7], [70000, 9000, 700], [46341, 46341], [3037000500, 3, 1],
                [1, 60000, 3], [0, 70000], [250000, 0, 4], [65536, 65536, 65536]):
        yield "vector", {"vec": vec}, True
    for i in range(400 * TS if thorough else 40):
        L = rng.randint(1, 12)
        vec = [rng.randint(0, 10 ** rng.randint(1, 6)) for _ in range(L)]
        if i % 3 == 0 and L > 1:
            vec[1] = 0
        yield "vector", {"vec": vec}, i < 10
    # D9 witness class
    yield "sets", {"a": [1, 2], "b": [2, 3], "ka": "set", "kb": "set"}, True
    # plain lists / tuples / sets of strings whose only missing marker is a float nan
    for ka, kb in (("list", "list"), ("tuple", "list"), ("list", "set"), ("ndarray", "list")):
        yield "sets", {"a": ["a", "b", "__nan__"], "b": ["a", "__nan__"], "ka": ka, "kb": kb}, True
        yield "sets", {"a": ["x", "y", "z"], "b": ["w", "__nan__", "x"], "ka": ka, "kb": kb}, True
    # infinite values are ordinary elements (only missing values are dropped)
    for ka, kb in (("list", "list"), ("series_float", "series_float"), ("ndarray_float", "list"), ("series_float", "set")):
        yield "sets", {"a": [0.5, "__inf__", 2.0], "b": ["__inf__", 3.0, 0.5], "ka": ka, "kb": kb}, True
        yield "sets", {"a": [0.5, "__inf__", "__-inf__", 2.0], "b": ["__-inf__", 3.0], "ka": ka, "kb": kb}, True
    yield "sets", {"a": [0.5, "__inf__", "__nan__", 2.0], "b": ["__inf__", "__nan__", 3.0], "ka": "series_float", "kb": "series_float"}, True
    # elements that are tuples (paired clonotypes): equal only as whole tuples
    pa = [["CAVRD", "CASSLGF"], ["CAVKD", "CASSPGF"], ["CAVRD", "CASSLGF"]]
    pb = [["CAVRD", "CASSPGF"], ["CAVKD", "CASSLGF"]]
    for ka, kb in (("list", "list"), ("set", "list"), ("tuple", "set"), ("series", "list")):
        yield "sets", {"a": pa, "b": pb, "ka": ka, "kb": kb}, True
        yield "sets", {"a": pa, "b": pb + [["CAVRD", "CASSLGF"]], "ka": ka, "kb": kb}, True
    yield "sets", {"a": ["x", "y", "y"], "b": ["y", None, "z"], "ka": "list", "kb": "series"}, True
    # numeric collections already in non-decreasing order with repeated values (merge-style fast paths)
    for ka, kb in (("list", "list"), ("series_float", "series_float"), ("ndarray_float", "list"), ("tuple", "ndarray"), ("series", "series")):
        for a, b in (([1, 1, 2], [3, 4]), ([1, 2, 2, 3], [2, 3]), ([0, 0, 0], [0, 0]), ([1, 2, 3, 3, 3, 9], [3, 3, 4, 9, 9]), ([2.5, 2.5, 7.0], [1.0, 2.5, 2.5, 2.5])):
            yield "sets", {"a": a, "b": b, "ka": ka, "kb": kb, "sorted_dup": True}, True
    if thorough:
        uni = ["p", "q", "r", "s"]
        subs = [list(c) for n in range(0, 5) for c in itertools.combinations(uni, n)]
        for a in subs:
            for b in subs:
                yield "sets", {"a": a, "b": b, "ka": "list", "kb": "set"}, True
    for i in range(3000 * TS if thorough else 200):
        ints = i % 2 == 0
        pool = list(range(8)) if ints else ["CASSF", "CASF", "CAWF", "A", "", "B", "AB", "C"]
        a = [rng.choice(pool) for _ in range(rng.randint(1, 10))]
        b = [rng.choice(pool) for _ in range(rng.randint(1, 10))]
        ka, kb = rng.choice(KINDS_SET), rng.choice(KINDS_SET)
        if i % 3 == 0:
            miss = None if not ints or i % 2 else "__nan__"
            if i % 6 == 0:
                miss = "__nan__" if ints else None
            for coll, kk in ((a, ka), (b, kb)):
                if rng.random() < 0.7:
                    coll.insert(rng.randrange(len(coll) + 1), miss)
        yield "sets", {"a": a, "b": b, "ka": ka, "kb": kb}, i < 80
