"""C08 - string metrics return true (weighted) edit distances in SciPy layout."""
import random

from vmon import gens as G
from vmon.gens import THOROUGH_SCALE as TS
from vmon import oracles as O

PID = "C08"
RULE = ("metric cases: WeightedLevenshtein(ins,del,sub) / Levenshtein().calc_cdist_matrix(A,B)[i,j] compared with the weighted "
        "Wagner-Fischer oracle for turning A[i] into B[j] (asymmetric weights, sub > ins+del included), calc_pdist_vector(X) "
        "compared entry by entry with the SciPy condensed index m*i + j - (i+2)(i+1)/2 and through a squareform round trip; "
        "long cases use strings of length up to 400 (no wrap-around). functional cases: pyrepseq.pdist / cdist with "
        "order-revealing callables f(a)*31+g(b), float-valued callables with dtype=float, default metric, and keyword forwarding "
        "(the callable records its kwargs). distinct_nontrivial = distinct cases with at least two different distances.")
ASSUMPTIONS = ["the functional helpers' documented uint8 default is respected: distances > 255 are only requested with an explicit wider dtype",
               "weights are positive integers; totals beyond 2^24 (weights of 10^6 and more) are compared at the single-precision resolution of the returned matrices; totals of 2^31 and more are not demanded (the unchanged code is itself inexact there)"]
EXHAUSTIVE = {"quick": ["all strings len<=3 over AB as A and B, 6 weight triples", "pdist layout for every m in 2..9"],
              "thorough": ["all strings len<=4 over AB as A and B, 14 weight triples", "all strings len<=3 over ABC, 6 weight triples", "pdist layout for every m in 2..14"]}
REQUIRE = {"thin_matrix_cases": 32, "pdist_big_cases": 1, "huge_weight_cases": 2, "long_one_sided_calls": 22, "cdist_cells_checked": 2328, "pdist_entries_checked": 500, "asymmetric_weight_cases": 20, "sub_gt_ins_plus_del_cases": 4,
           "long_string_pairs": 5, "functional_pdist_cases": 10, "functional_cdist_cases": 10, "kwargs_forwarded_checked": 5,
           "float_callable_cases": 5, "squareform_roundtrips": 15, "default_metric_kwargs_cases": 5}
SHARDS = {"quick": 4, "thorough": 16}
WEIGHTS = [(1, 1, 1), (2, 5, 3), (5, 2, 3), (1, 1, 7), (3, 1, 1), (1, 3, 2), (2, 1, 1), (1, 2, 1), (1, 1, 2), (2, 2, 1), (1, 2, 4), (4, 1, 9), (7, 7, 7),
           (1, 9, 1), (9, 1, 1), (2, 3, 6), (3, 2, 5)]


def self_test():
    O.self_test()


def cidx(m, i, j):
    return m * i + j - ((i + 2) * (i + 1)) // 2


def _metric(ins, dele, sub, use_plain):
    from pyrepseq.metric import Levenshtein, WeightedLevenshtein
    if use_plain:
        return Levenshtein()
    return WeightedLevenshtein(insertion_weight=ins, deletion_weight=dele, substitution_weight=sub)


def k_metric(ctx, A, B, w, plain=False, container=None, thin=False):
    import numpy as np
    from scipy.spatial.distance import squareform
    ins, dele, sub = (1, 1, 1) if plain else w
    m = _metric(ins, dele, sub, plain)
    _decoy = _metric(ins + 3, dele + 6, sub + 2, False)        # another metric object built afterwards must not influence m
    name = "Levenshtein" if plain else "WeightedLevenshtein"
    if ins != dele:
        ctx.count("asymmetric_weight_cases")
    if thin:
        ctx.count("thin_matrix_cases")
    if sub > ins + dele:
        ctx.count("sub_gt_ins_plus_del_cases")
    a = G.make_container(container, A) if container else list(A)
    b = G.make_container(container, B) if container else list(B)
    out = ctx.call(m.calc_cdist_matrix, a, b)
    wcls = "unit" if (ins, dele, sub) == (1, 1, 1) else ("asym" if ins != dele else "sym")
    ctx.sample(f"metric:{wcls}", {"A": A[:6], "B": B[:6], "weights": [ins, dele, sub], "plain": plain})
    vals = set()
    if not out.ok:
        ctx.violation(f"{name}:cdist:{wcls}:raised", "calc_cdist_matrix raised", out.describe(), None)
    else:
        M = np.asarray(out.value)
        if M.shape != (len(A), len(B)):
            ctx.violation(f"{name}:cdist:shape", "cdist matrix has the wrong shape", list(M.shape), [len(A), len(B)])
        else:
            bad = None
            for i, x in enumerate(A):
                for j, y in enumerate(B):
                    e = O.wlev(x, y, ins, dele, sub)
                    vals.add(e)
                    if bad is None and float(M[i, j]) != e:
                        bad = (i, j, x, y, float(M[i, j]), e)
            ctx.count("cdist_cells_checked", len(A) * len(B))
            if bad:
                i, j, x, y, g, e = bad
                hint = ""
                if g == O.wlev(x, y, dele, ins, sub):
                    hint = " (equals the cost with insertion/deletion weights swapped)"
                elif g == O.wlev(y, x, ins, dele, sub):
                    hint = " (equals the cost of turning B[j] into A[i])"
                ctx.violation(f"{name}:cdist:{wcls}:wrong-distance", f"[{i},{j}] {x!r}->{y!r}: got {g}, minimum edit weight is {e}{hint}",
                              M, None, {"weights": [ins, dele, sub]})
    if len(vals) >= 2:
        ctx.nontriv([A, B, ins, dele, sub, plain])
    # condensed layout on A
    if len(A) >= 2:
        pv = ctx.call(m.calc_pdist_vector, a)
        mm = len(A)
        if not pv.ok:
            ctx.violation(f"{name}:pdist:{wcls}:raised", "calc_pdist_vector raised", pv.describe(), None)
        else:
            v = np.asarray(pv.value)
            if v.shape != (mm * (mm - 1) // 2,):
                ctx.violation(f"{name}:pdist:shape", "pdist vector has the wrong length", list(v.shape), [mm * (mm - 1) // 2])
            else:
                for i in range(mm):
                    for j in range(i + 1, mm):
                        e = O.wlev(A[i], A[j], ins, dele, sub)
                        ctx.count("pdist_entries_checked")
                        if float(v[cidx(mm, i, j)]) != e:
                            ctx.violation(f"{name}:pdist:{wcls}:layout", f"entry for (i={i}, j={j}) at condensed index {cidx(mm, i, j)} is "
                                          f"{float(v[cidx(mm, i, j)])}, distance X[i]->X[j] is {e}", v, None, {"X": A[:10], "weights": [ins, dele, sub]})
                            break
                    else:
                        continue
                    break
                if ins == dele:
                    sq = squareform(v)
                    ctx.count("squareform_roundtrips")
                    want = np.array([[O.wlev(x, y, ins, dele, sub) for y in A] for x in A], dtype=float)
                    if sq.shape != want.shape or not np.array_equal(sq.astype(float), want):
                        ctx.violation(f"{name}:pdist:squareform", "squareform(calc_pdist_vector(X)) is not the pairwise distance matrix", sq, want)


def k_long(ctx, a, b, w):
    import numpy as np
    ins, dele, sub = w
    m = _metric(ins, dele, sub, w == [1, 1, 1] or tuple(w) == (1, 1, 1))
    e = O.wlev(a, b, ins, dele, sub)
    e2 = O.wlev(b, a, ins, dele, sub)
    ctx.count("long_string_pairs")
    ctx.nontriv(["L", a, b, w])
    ctx.sample("long", {"len_a": len(a), "len_b": len(b), "weights": w, "distance": e})
    out = ctx.call(m.calc_cdist_matrix, [a, b], [b, a])
    if not out.ok:
        ctx.violation("metric:long:raised", "calc_cdist_matrix on long strings raised", out.describe(), None)
        return
    M = np.asarray(out.value).astype(float)
    want = np.array([[e, 0.0], [0.0, e2]])
    if not np.array_equal(M, want):
        ctx.violation("metric:long:wrong-distance", f"long strings (len {len(a)}, {len(b)}): wrap-around or wrong distance", M, want, {"weights": w})
    # each direction on its own: all anchors short and a long comparison string, and the other way round
    for A_, B_, w_ in (([a], [b], e), ([b], [a], e2), ([a, a], [b], e), ([b], [a, a, a], e2)):
        o1 = ctx.call(m.calc_cdist_matrix, list(A_), list(B_))
        ctx.count("long_one_sided_calls")
        if not o1.ok or not np.array_equal(np.asarray(o1.value).astype(float), np.full((len(A_), len(B_)), float(w_))):
            ctx.violation("metric:long:one-sided:wrong-distance", f"anchors of length {len(A_[0])} against comparisons of length {len(B_[0])}: wrong distance",
                          o1.describe(), w_, {"weights": w})
    pv = ctx.call(m.calc_pdist_vector, [a, b])
    if not pv.ok or float(np.asarray(pv.value)[0]) != e:
        ctx.violation("metric:long:pdist", "pdist of two long strings is wrong", pv.describe(), e)


def k_pdist_big(ctx, m, w, np_seed):
    """Thousands of strings drawn from a few dozen distinct ones: every entry of the condensed vector is compared with the table of
    distances between the distinct strings (row by row, vectorised)."""
    import numpy as np
    rng = random.Random(np_seed)
    distinct = sorted({G.rand_string(rng, "ACDEFGHIK", 0, 9) for _ in range(60)})
    pick = np.array([rng.randrange(len(distinct)) for _ in range(m)])
    X = [distinct[k] for k in pick]
    ins, dele, sub = w
    D = np.array([[O.wlev(a, b, ins, dele, sub) for b in distinct] for a in distinct], dtype=float)
    met = _metric(ins, dele, sub, tuple(w) == (1, 1, 1))
    ctx.count("pdist_big_cases")
    ctx.nontriv(["pbig", m, w, np_seed])
    ctx.sample("pdist_big", {"m": m, "weights": w, "distinct": len(distinct)})
    out = ctx.call(met.calc_pdist_vector, X)
    if not out.ok:
        ctx.violation("metric:pdist:big:raised", "calc_pdist_vector raised on a large collection", out.describe(), None)
        return
    v = np.asarray(out.value)
    if v.shape != (m * (m - 1) // 2,):
        ctx.violation("metric:pdist:big:shape", "pdist vector has the wrong length", list(v.shape), [m * (m - 1) // 2])
        return
    off = 0
    for i in range(m - 1):
        seg = v[off:off + m - i - 1].astype(float)
        want = D[pick[i], pick[i + 1:]]
        if not np.array_equal(seg, want):
            j = int(np.argmax(seg != want)) + i + 1
            ctx.violation("metric:pdist:big:layout", f"m={m}: entry for (i={i}, j={j}) at condensed index {cidx(m, i, j)} is {float(v[cidx(m, i, j)])}, distance X[i]->X[j] is {float(D[pick[i], pick[j]])}",
                          None, None, {"weights": w})
            return
        off += m - i - 1
    ctx.count("pdist_entries_checked", m * (m - 1) // 2)


def k_hugeweights(ctx, A, B, w):
    """Weights of 10^6 .. 5*10^6 (totals below 2^31): the result matrix is single precision, so the comparison is made at float32 resolution
    (relative 2^-22); a wrapped or truncated total is off by orders of magnitude."""
    import numpy as np
    ins, dele, sub = w
    m = _metric(ins, dele, sub, False)
    ctx.count("huge_weight_cases")
    ctx.nontriv(["huge", A, B, w])
    ctx.sample("hugeweights", {"A": A[:4], "B": B[:4], "weights": w})
    out = ctx.call(m.calc_cdist_matrix, list(A), list(B))
    if not out.ok:
        ctx.violation("WeightedLevenshtein:cdist:huge-weights:raised", "calc_cdist_matrix raised", out.describe(), None)
        return
    M = np.asarray(out.value, dtype=float)
    for i, x in enumerate(A):
        for j, y in enumerate(B):
            e = O.wlev(x, y, ins, dele, sub)
            if abs(M[i, j] - e) > e * 2.0 ** -22:
                ctx.violation("WeightedLevenshtein:cdist:huge-weights:wrong-distance", f"[{i},{j}] {x!r}->{y!r}: got {M[i, j]!r}, minimum edit weight is {e} (beyond single-precision rounding)",
                              M, None, {"weights": w})
                return


CODE = {}


def _code(s):
    return CODE.setdefault(s, len(CODE))


def k_fn(ctx, X, B=None, mode="order", kw=None):
    """functional helpers.  mode: order (f(a)*31+g(b), uint8 default), float (dtype=float), default (Levenshtein)."""
    import numpy as np
    import pyrepseq as prs
    seen_kwargs = []
    table = {s: i for i, s in enumerate(dict.fromkeys(list(X) + list(B or [])))}

    def f_order(a, b, **k):
        seen_kwargs.append(dict(k))
        return table[a] * 31 + (table[b] % 7) + sum(int(v) for v in k.values() if isinstance(v, int))

    def f_float(a, b, **k):
        seen_kwargs.append(dict(k))
        return table[a] * 1.5 - table[b] * 0.25 + k.get("shift", 0.0)
    kw = kw or {}
    if mode == "order":
        f, extra, oracle = f_order, {}, lambda a, b: table[a] * 31 + (table[b] % 7) + sum(int(v) for v in kw.values() if isinstance(v, int))
    elif mode == "float":
        f, extra, oracle = f_float, {"dtype": float}, lambda a, b: table[a] * 1.5 - table[b] * 0.25 + kw.get("shift", 0.0)
        ctx.count("float_callable_cases")
    elif mode == "default_weights":
        # default metric (Levenshtein distance) with keyword arguments it accepts: they must reach it
        wi, wd, ws = kw["weights"]
        f, extra, oracle = None, {}, (lambda a, b: O.wlev(a, b, wi, wd, ws))
        kw = {"weights": tuple(kw["weights"])}
        ctx.count("default_metric_kwargs_cases")
    else:
        f, extra, oracle = None, {}, O.lev
    ctx.nontriv(["F", X, B, mode, kw])
    ctx.sample(f"fn:{mode}", {"X": X[:6], "B": B and B[:6], "kw": kw})
    args = {} if f is None else {"metric": f}
    if B is None:
        m = len(X)
        out = ctx.call(prs.pdist, iter(list(X)) if len(X) % 2 else list(X), **args, **extra, **kw)
        ctx.count("functional_pdist_cases")
        if not out.ok:
            ctx.violation(f"pdist:{mode}:raised", "pyrepseq.pdist raised", out.describe(), None)
            return
        v = np.asarray(out.value)
        if v.shape != (m * (m - 1) // 2,):
            ctx.violation(f"pdist:{mode}:shape", "condensed vector has the wrong length", list(v.shape), [m * (m - 1) // 2])
            return
        for i in range(m):
            for j in range(i + 1, m):
                e = oracle(X[i], X[j])
                if float(v[cidx(m, i, j)]) != float(e):
                    ctx.violation(f"pdist:{mode}:layout", f"metric(X[{i}], X[{j}]) = {e} is not at condensed index {cidx(m, i, j)}", v, None, {"X": X})
                    return
    else:
        out = ctx.call(prs.cdist, tuple(X), list(B), **args, **extra, **kw)
        ctx.count("functional_cdist_cases")
        if not out.ok:
            ctx.violation(f"cdist:{mode}:raised", "pyrepseq.cdist raised", out.describe(), None)
            return
        M = np.asarray(out.value)
        if M.shape != (len(X), len(B)):
            ctx.violation(f"cdist:{mode}:shape", "matrix has the wrong shape", list(M.shape), [len(X), len(B)])
            return
        for i, a in enumerate(X):
            for j, b in enumerate(B):
                if float(M[i, j]) != float(oracle(a, b)):
                    ctx.violation(f"cdist:{mode}:layout", f"[{i},{j}] is {float(M[i, j])}, metric(A[{i}], B[{j}]) = {oracle(a, b)}", M, None, {"A": X, "B": B})
                    return
    if f is not None and kw:
        ctx.count("kwargs_forwarded_checked")
        if not seen_kwargs or any(k != kw for k in seen_kwargs):
            ctx.violation(f"{'pdist' if B is None else 'cdist'}:kwargs-not-forwarded", "extra keyword arguments did not reach the metric callable unchanged",
                          seen_kwargs[:3], kw)


KINDS = {"metric": k_metric, "long": k_long, "fn": k_fn, "hugeweights": k_hugeweights, "pdist_big": k_pdist_big}


def generate(tier, seed):
    rng = random.Random(8000 + seed)
    thorough = tier == "thorough"
    u = G.universe("AB", 4 if thorough else 3)
    wl = WEIGHTS if thorough else WEIGHTS[:9]
    for w in wl:
        yield "metric", {"A": u, "B": u, "w": list(w)}, True
    yield "metric", {"A": u, "B": u, "w": [1, 1, 1], "plain": True}, True
    if thorough:
        u3 = G.universe("ABC", 3)
        for w in WEIGHTS[:6]:
            yield "metric", {"A": u3, "B": u3, "w": list(w)}, True
    for m in range(2, 15 if thorough else 10):
        X = [G.rand_string(rng, "ACDW", 0, 6) for _ in range(m)]
        yield "metric", {"A": X, "B": X[:3], "w": list(WEIGHTS[m % len(WEIGHTS)])}, True
        yield "metric", {"A": X, "B": X[:2], "w": [1, 1, 1], "plain": True}, True
        yield "fn", {"X": [f"s{i}" for i in range(min(m, 8))], "mode": "order"}, True
    pools = [G.universe("ACD", 4), G.hostile_strings(), G.NON_AMINO + G.universe("ab", 3)]
    n_rand = 4000 * TS if thorough else 200
    for i in range(n_rand):
        pool = pools[i % len(pools)]
        A = G.small_multiset(rng, pool, 1, 14)
        B = G.small_multiset(rng, pool, 1, 10)
        w = [rng.randint(1, 9), rng.randint(1, 9), rng.randint(1, 12)] if i % 3 else list(rng.choice(WEIGHTS))
        cont = [None, "ndarray_U", "series_shifted", "tuple", "ndarray_O"][i % 5]
        if cont == "tuple" and (len(A) == 2 or len(B) == 2):
            cont = None
        yield "metric", {"A": A, "B": B, "w": w, "plain": i % 7 == 0, "container": cont}, i < 60
    # repertoire-like
    for i in range(100 * TS if thorough else 8):
        rep = G.repertoire(rng, rng.randint(8, 40))
        yield "metric", {"A": rep, "B": rep[:7], "w": [rng.randint(1, 4), rng.randint(1, 4), rng.randint(1, 6)]}, i < 3
    # collections of more than 100 (short) strings: size-dependent paths
    for i in range(12 if thorough else 3):
        X = [G.rand_string(rng, "ACD", 0, 5) for _ in range(rng.randint(101, 140))]
        yield "metric", {"A": X, "B": X[:4], "w": [[2, 5, 3], [1, 3, 1], [1, 1, 1]][i % 3], "plain": i % 3 == 2}, True
    # extreme shapes: one anchor against n comparisons and the reverse (single-query / single-reference shortcuts), asymmetric weights
    for n in (1, 2, 31, 32, 33, 64, 129, 300):
        X = [G.rand_string(rng, "ACD", 0, 7) for _ in range(n)]
        for k, w in ((1, [2, 5, 3]), (2, [4, 1, 2])):
            yield "metric", {"A": X[:k], "B": X, "w": w, "thin": True}, True
            yield "metric", {"A": X, "B": X[-k:], "w": w, "thin": True}, True
    # strings that differ by a trailing NUL or control character only (plain lists: no fixed-width array in the harness)
    yield "metric", {"A": G.NUL_STRINGS, "B": G.NUL_STRINGS + ["A\n", "A\x00B"], "w": [1, 1, 1], "plain": True}, True
    yield "metric", {"A": G.NUL_STRINGS, "B": G.NUL_STRINGS + ["A\n", "A\x00B"], "w": [2, 3, 4]}, True
    # collections of thousands of strings (condensed vectors of millions of entries; thorough: beyond 2^13 strings / 2^25 entries)
    yield "pdist_big", {"m": 2049, "w": [1, 1, 1], "np_seed": 8800 + seed}, True
    if thorough:
        yield "pdist_big", {"m": 8200, "w": [1, 1, 1], "np_seed": 8801 + seed}, True
        yield "pdist_big", {"m": 4100, "w": [2, 3, 4], "np_seed": 8802 + seed}, True
    # large weights (totals beyond 2^24 but below 2^31: where the unchanged code itself is exact to single precision and no integer width is exhausted)
    for w in ([5 * 10 ** 6, 5 * 10 ** 6, 1], [2 ** 20, 2 ** 20, 2 ** 20], [10 ** 6, 3 * 10 ** 6, 5 * 10 ** 6], [1, 1, 5 * 10 ** 6]):
        yield "hugeweights", {"A": ["CASSLGQGNTEAFF", "", "A" * 256, "CAF"], "B": ["CAF", "A" * 256, "CASSLGQGNTEAFF", "C" * 300], "w": w}, True
    # long strings (no wrap-around): lengths up to 400, completely different / nearly identical
    lens = [(300, 300), (400, 400), (256, 255), (400, 0), (0, 300), (257, 300), (130, 400), (399, 400)]
    for i, (la, lb) in enumerate(lens if not thorough else lens * 4):
        if i % 2 == 0:
            a, b = "A" * la, "C" * lb                      # maximal distance
        else:
            a = G.rand_string(rng, "ACDEFGHIKL", la, la)
            b = G.rand_string(rng, "MNPQRSTVWY", lb, lb)
        w = [[1, 1, 1], [1, 1, 1], [2, 3, 4], [1, 1, 3]][i % 4]
        yield "long", {"a": a, "b": b, "w": w}, True
    for i in range(60 * TS if thorough else 6):
        a = G.rand_string(rng, "ACDW", 200, 400)
        b = G.mutate(rng, a, "ACDW", rng.randint(1, 40))
        yield "long", {"a": a, "b": b, "w": [1, 1, 1] if i % 2 else [2, 1, 3]}, i < 3
    # functional helpers
    names = ["p", "q", "r", "s", "t", "u", "v", "w"]
    for i in range(600 * TS if thorough else 60):
        m = rng.randint(2, 8)
        X = rng.sample(names, m)
        mode = ["order", "float", "default", "default_weights"][i % 4]
        kw = {}
        if mode == "order" and i % 2:
            kw = {"bonus": rng.randint(1, 5), "other": rng.randint(0, 3)}
        if mode == "float" and i % 2:
            kw = {"shift": 0.5}
        if mode in ("default", "default_weights"):
            X = G.small_multiset(rng, G.universe("ACD", 4), 2, 9)
        if mode == "default_weights":
            kw = {"weights": [rng.randint(1, 3), rng.randint(1, 3), rng.randint(1, 5)]}
        p = {"X": X, "mode": mode, "kw": kw}
        if i % 6 == 1:
            p["B"] = list(X)          # the two collections are equal: still a full rectangular evaluation, not a mirrored pdist
        if i % 2 == 0:
            p["B"] = rng.sample(names, rng.randint(1, 7)) if mode not in ("default", "default_weights") else G.small_multiset(rng, G.universe("ACD", 4), 1, 6)
        yield "fn", p, i < 40
