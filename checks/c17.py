"""C17 - resampling and power-law utilities conserve counts and honour their bounds."""
import collections
import math
import random

from vmon import gens as G
from vmon.gens import THOROUGH_SCALE as TS
from vmon import oracles as O

PID = "C17"
RULE = ("per-call invariants on seeded random draws: subsample(counts, n) -> sorted unique indices, positive counts summing to n, each <= "
        "the category's original count, n > total raises; downsample -> the identical input object when len <= maxseqs or maxseqs is "
        "None, else exactly maxseqs elements forming a sub-multiset (tables: row subset with unchanged contents); powerlaw_sample -> "
        "requested size, integer-valued, >= xmin; powerlaw_mle_alpha 'simple' / 'continuitycorrection' against the closed forms (rel "
        "1e-12) and 'exact' inside its bounds and not beaten by any point of a 2000-point grid of an independently computed discrete "
        "log-likelihood. uniformity cases: category totals of subsample over R seeded runs against the hypergeometric mean with a 7-sigma "
        "threshold (false-alarm probability < 1e-9 per run of the whole check). distinct_nontrivial = distinct (function, arguments, numpy seed).")
ASSUMPTIONS = ["exponents >= 1.1 for powerlaw_sample so that the float transform cannot overflow", "count vectors have length >= 1",
               "7-sigma normal threshold on sums of >= 300 hypergeometric draws; the default seed makes the run deterministic"]
EXHAUSTIVE = {"quick": ["subsample: every count vector of length<=3 with entries<=3 x every n in 0..total (one seed each)"],
              "thorough": ["subsample: every count vector of length<=4 with entries<=3 x every n in 0..total x 3 seeds"]}
REQUIRE = {"downsample_table_with_clone_count": 4, "mle_narrow_dtype_calls": 94, "subsample_many_categories": 1, "mle_exact_given_bounds": 11, "powerlaw_heavy_tail_cases": 2, "subsample_cases": 200, "subsample_n_equals_total": 10, "subsample_n_zero": 10, "subsample_too_many_raises": 10,
           "downsample_cases": 30, "downsample_identity": 10, "downsample_subsampled": 17, "downsample_table": 10, "downsample_table_duplicated_index": 5,
           "powerlaw_sample_cases": 15, "mle_closed_form_cases": 12, "mle_exact_cases": 10, "uniformity_tests": 4}
SHARDS = {"quick": 4, "thorough": 16}


def self_test():
    O.self_test()
    assert abs(_hzeta(2.0, 1) - math.pi ** 2 / 6) < 1e-9
    assert abs(_hzeta(3.0, 2) - (1.2020569031595942 - 1)) < 1e-9


def _hzeta(a, q, terms=4000):
    """Hurwitz zeta sum_{k>=0} (k+q)^-a : direct sum + Euler-Maclaurin tail (independent of scipy.special)."""
    s = 0.0
    for k in range(terms):
        s += (k + q) ** (-a)
    x = terms + q
    s += x ** (1 - a) / (a - 1) + 0.5 * x ** (-a) + a * x ** (-a - 1) / 12.0
    return s


def k_subsample(ctx, counts, n, np_seed):
    import numpy as np
    import pyrepseq as prs
    total = sum(counts)
    ctx.count("subsample_cases")
    if len(counts) > 32768:
        ctx.count("subsample_many_categories")
    ctx.nontriv(["sub", counts, n, np_seed])
    ctx.sample("subsample", {"counts": counts[:10], "n": n, "total": total})
    np.random.seed(np_seed)
    out = ctx.call(prs.subsample, np.array(counts) if np_seed % 2 else list(counts), n)
    if n > total:
        ctx.count("subsample_too_many_raises")
        if out.ok:
            ctx.violation("subsample:n>total:accepted", "subsample with n larger than the total returned a result", out.value, "an exception")
        return
    if n == total:
        ctx.count("subsample_n_equals_total")
    if n == 0:
        ctx.count("subsample_n_zero")
    if not out.ok:
        ctx.violation("subsample:raised", "subsample raised for 0 <= n <= total", out.describe(), None)
        return
    try:
        idx, cnt = out.value
        idx, cnt = [int(x) for x in np.asarray(idx).tolist()], [int(x) for x in np.asarray(cnt).tolist()]
    except Exception as e:
        ctx.violation("subsample:malformed", f"did not return (indices, counts): {e}", out.value, None)
        return
    if idx != sorted(set(idx)) or len(idx) != len(cnt):
        ctx.violation("subsample:indices-not-sorted-unique", "category indices are not sorted and unique", idx, None)
    elif any(c <= 0 for c in cnt):
        ctx.violation("subsample:non-positive-count", "a returned count is not positive", cnt, None)
    elif sum(cnt) != n:
        ctx.violation("subsample:sum", f"returned counts sum to {sum(cnt)}, not n={n}", cnt, n)
    elif any(i < 0 or i >= len(counts) or c > counts[i] for i, c in zip(idx, cnt)):
        ctx.violation("subsample:exceeds-original", "a category received more items than it originally had", list(zip(idx, cnt)), counts)


def k_uniform(ctx, counts, n, runs, np_seed):
    import numpy as np
    import pyrepseq as prs
    N = sum(counts)
    tot = collections.Counter()
    np.random.seed(np_seed)
    for _ in range(runs):
        out = ctx.call(prs.subsample, list(counts), n)
        if not out.ok:
            ctx.violation("subsample:raised", "subsample raised", out.describe(), None)
            return
        for i, c in zip(np.asarray(out.value[0]).tolist(), np.asarray(out.value[1]).tolist()):
            tot[int(i)] += int(c)
    ctx.count("uniformity_tests")
    ctx.nontriv(["uni", counts, n, runs, np_seed])
    ctx.sample("uniformity", {"counts": counts, "n": n, "runs": runs, "totals": dict(tot)})
    for i, K in enumerate(counts):
        mean = runs * n * K / N
        var = runs * n * (K / N) * (1 - K / N) * (N - n) / max(1, N - 1)
        sd = math.sqrt(var)
        if abs(tot[i] - mean) > 7 * sd + 1:
            ctx.violation("subsample:not-uniform", f"category {i} kept {tot[i]} items over {runs} runs; hypergeometric mean {mean:.1f}, sd {sd:.2f}",
                          dict(tot), {"mean": mean, "sd": sd})
            return


def k_downsample(ctx, seqs, maxseqs, container, np_seed):
    import numpy as np
    import pandas as pd
    import pyrepseq as prs
    ctx.count("downsample_cases")
    ctx.nontriv(["down", seqs, maxseqs, container, np_seed])
    ctx.sample(f"downsample:{container}", {"n": len(seqs), "maxseqs": maxseqs})
    if container in ("table", "table_dupindex"):
        ctx.count("downsample_table")
        idx = [f"r{i}" for i in range(len(seqs))] if container == "table" else [f"r{i % 3}" for i in range(len(seqs))]
        if container == "table_dupindex":
            ctx.count("downsample_table_duplicated_index")
        x = pd.DataFrame({"CDR3B": seqs, "tag": [f"t{i}" for i in range(len(seqs))]}, index=idx)
        if np_seed % 3 == 0:
            # the optional standard column clone_count, with empty / missing counts: rows are rows, whatever it says
            x["clone_count"] = [[0, float("nan"), 3, 1][i % 4] for i in range(len(seqs))]
            ctx.count("downsample_table_with_clone_count")
    elif container == "ndarray":
        x = np.array(seqs)
    elif container == "series":
        x = pd.Series(seqs, index=range(4, 4 + len(seqs)))
    else:
        x = list(seqs)
    np.random.seed(np_seed)
    out = ctx.call(prs.downsample, x, maxseqs)
    if not out.ok:
        ctx.violation(f"downsample:{container}:raised", "downsample raised", out.describe(), None)
        return
    if maxseqs is None or len(seqs) <= maxseqs:
        ctx.count("downsample_identity")
        if out.value is not x:
            # a copy is acceptable, as long as it holds the same elements / rows in the same order
            r = out.value
            try:
                if container in ("table", "table_dupindex"):
                    same = list(r.index) == list(x.index) and list(r.columns) == list(x.columns) and \
                        [[repr(v) for v in row] for row in r.values.tolist()] == [[repr(v) for v in row] for row in x.values.tolist()]      # repr: missing cells compare equal
                else:
                    same = [str(v) for v in list(r)] == [str(v) for v in list(x)]
            except Exception:
                same = False
            if not same:
                ctx.violation(f"downsample:{container}:not-identity", "input with at most maxseqs elements was not returned unchanged (content or order differs)",
                              type(out.value).__name__, "the input, unchanged")
        return
    ctx.count("downsample_subsampled")
    r = out.value
    if len(r) != maxseqs:
        ctx.violation(f"downsample:{container}:size", f"returned {len(r)} elements, expected exactly maxseqs={maxseqs}", len(r), maxseqs)
        return
    if container in ("table", "table_dupindex"):
        tags = r["tag"].tolist()
        orig = {t: (lab, seq) for t, lab, seq in zip(x["tag"].tolist(), list(x.index), x["CDR3B"].tolist())}
        if len(set(tags)) != len(tags) or any(t not in orig for t in tags):
            ctx.violation(f"downsample:{container}:not-a-row-subset", "rows are not a subset of the input rows (a row repeated or unknown)", tags[:10], None)
            return
        for t, lab, seq in zip(tags, list(r.index), r["CDR3B"].tolist()):
            if orig[t] != (lab, seq):
                ctx.violation(f"downsample:{container}:row-changed", "a row's label or content changed", [lab, seq], list(orig[t]))
                return
    else:
        got = collections.Counter(str(v) for v in list(r))
        if got - collections.Counter(seqs):
            ctx.violation(f"downsample:{container}:not-a-sub-multiset", "an element was drawn more often than it is present", dict(got - collections.Counter(seqs)), None)


def k_powerlaw_sample(ctx, size, xmin, alpha, np_seed):
    import numpy as np
    import pyrepseq as prs
    ctx.count("powerlaw_sample_cases")
    ctx.nontriv(["pls", size, xmin, alpha, np_seed])
    ctx.sample("powerlaw_sample", {"size": size, "xmin": xmin, "alpha": alpha})
    if alpha <= 1.2 and size >= 2000:
        ctx.count("powerlaw_heavy_tail_cases")
    np.random.seed(np_seed)
    out = ctx.call(prs.powerlaw_sample, size=size, xmin=xmin, alpha=alpha)
    if not out.ok:
        ctx.violation("powerlaw_sample:raised", "raised", out.describe(), None)
        return
    v = np.asarray(out.value, dtype=float)
    if v.shape != (size,):
        ctx.violation("powerlaw_sample:size", "wrong number of samples", list(v.shape), [size])
    elif not np.all(np.isfinite(v)) or not np.all(v == np.floor(v)):
        ctx.violation("powerlaw_sample:not-integer", "samples are not integer-valued", v[:10], None)
    elif np.any(v < xmin):
        ctx.violation("powerlaw_sample:below-xmin", "a sample is below xmin", float(v.min()), xmin)
    # determinism for the same NumPy seed
    np.random.seed(np_seed)
    again = ctx.call(prs.powerlaw_sample, size=size, xmin=xmin, alpha=alpha)
    if again.ok and not np.array_equal(np.asarray(again.value), np.asarray(out.value)):
        ctx.violation("powerlaw_sample:seed", "same NumPy seed gave different samples", None, None)


def k_mle(ctx, c, cmin):
    import numpy as np
    import pyrepseq as prs
    kept = [x for x in c if x >= cmin]
    n = len(kept)
    ctx.nontriv(["mle", c, cmin])
    ctx.sample("mle", {"c": c[:12], "cmin": cmin, "n_kept": n})
    s_simple = sum(math.log(x / cmin) for x in kept)
    s_cc = sum(math.log(x / (cmin - 0.5)) for x in kept)
    if s_simple > 0:
        ctx.count("mle_closed_form_cases")
        for method, s in (("simple", s_simple), ("continuitycorrection", s_cc)):
            want = 1 + n / s
            out = ctx.call(prs.powerlaw_mle_alpha, np.array(c) if n % 2 else list(c), cmin=cmin, method=method)
            if not out.ok:
                ctx.violation(f"powerlaw_mle_alpha:{method}:raised", "raised", out.describe(), want)
            elif not abs(float(out.value) - want) <= 1e-12 * max(1.0, abs(want)):
                ctx.violation(f"powerlaw_mle_alpha:{method}:wrong", f"not the documented closed form over the {n} counts >= cmin", out.value, want)
        # the same counts as narrow integer arrays (closed forms only)
        for dt, lim in (("uint8", 255), ("int8", 127), ("uint16", 65535), ("float32", 2 ** 24)):
            if max(c) <= lim and all(float(v) == int(v) for v in c):
                for method, s_ in (("simple", s_simple), ("continuitycorrection", s_cc)):
                    want = 1 + n / s_
                    out = ctx.call(prs.powerlaw_mle_alpha, np.array(c, dtype=dt), cmin=cmin, method=method)
                    ctx.count("mle_narrow_dtype_calls")
                    tol = 1e-12 if dt != "float32" else 1e-6
                    if not out.ok or not abs(float(out.value) - want) <= tol * max(1.0, abs(want)):
                        ctx.violation(f"powerlaw_mle_alpha:{method}:{dt}:wrong", f"not the documented closed form when the counts are a {dt} array", out.describe(), want)
    # exact: maximiser of the discrete likelihood within its bounds
    if n >= 2 and isinstance(cmin, int) and max(kept) > cmin:
        # documented default bounds, then bounds given by the caller (forwarded keyword): the answer is a maximiser within *those*
        given = [(1.2, 2.0), (2.0, 3.0), (1.5, 6.0), (3.0, 4.0)][(len(c) + int(cmin)) % 4]
        for tag, (lo, hi), kw in (("default-bounds", (1.5, 4.5), {}), ("given-bounds", given, {"bounds": list(given)})):
            out = ctx.call(prs.powerlaw_mle_alpha, np.array(c), cmin=cmin, method="exact", **kw)
            ctx.count("mle_exact_cases")
            if kw:
                ctx.count("mle_exact_given_bounds")
            key = "powerlaw_mle_alpha:exact" if not kw else "powerlaw_mle_alpha:exact:given-bounds"
            if not out.ok:
                ctx.violation(f"{key}:raised", "raised", out.describe(), None)
                return
            a = float(out.value)
            if not (lo - 1e-9 <= a <= hi + 1e-9):
                ctx.violation(f"{key}:out-of-bounds", f"estimate outside the bounds [{lo}, {hi}] in force ({tag})", a, [lo, hi])
                return
            slog = sum(math.log(x) for x in kept)

            def ll(al):
                return -n * math.log(_hzeta(al, cmin, 1500)) - al * slog
            best = ll(a)
            # the bounded scalar optimiser stops within ~1e-5 of the optimum: allow the likelihood change over 1e-4 around the answer
            slack = max(abs(ll(min(hi, a + 1e-4)) - best), abs(ll(max(lo, a - 1e-4)) - best)) + 1e-7 * max(1.0, abs(best))
            npts = 2000 if not kw else 600
            step = (hi - lo) / (npts - 1)
            for i in range(npts):
                g = lo + i * step
                v = ll(g)
                if v > best + slack:
                    ctx.violation(f"{key}:not-a-maximiser", f"alpha={g:.4f} (inside the bounds [{lo}, {hi}], {tag}) has a higher discrete log-likelihood than the returned {a:.4f}",
                                  {"returned": a, "loglik": best}, {"alpha": g, "loglik": v})
                    return
    wrong = ctx.call(prs.powerlaw_mle_alpha, list(c), cmin=cmin, method="nosuchmethod")
    if wrong.ok:
        ctx.violation("powerlaw_mle_alpha:unknown-method-accepted", "unknown method accepted", wrong.value, "ValueError")


KINDS = {"subsample": k_subsample, "uniform": k_uniform, "downsample": k_downsample, "powerlaw_sample": k_powerlaw_sample, "mle": k_mle}


def generate(tier, seed):
    import itertools
    rng = random.Random(17000 + seed)
    thorough = tier == "thorough"
    Lmax = 4 if thorough else 3
    for L in range(1, Lmax + 1):
        for counts in itertools.product(range(4), repeat=L):
            tot = sum(counts)
            for n in range(0, tot + 2):
                for s in range(3 if thorough else 1):
                    yield "subsample", {"counts": list(counts), "n": n, "np_seed": seed * 1000 + s + n}, True
    # tens of thousands of categories (labels beyond 2^15 and 2^16)
    for j, L in enumerate([40000, 70000] if not thorough else [32769, 40000, 65535, 65537, 70000, 140000]):
        counts = [1 + (i % 3 == 0) for i in range(L)]
        yield "subsample", {"counts": counts, "n": [200, sum(counts) - 5, 3000][j % 3], "np_seed": seed * 23 + j}, True
    for i in range(2000 * TS if thorough else 150):
        L = rng.randint(1, 40)
        counts = [rng.randint(0, rng.choice([1, 5, 200])) for _ in range(L)]
        tot = sum(counts)
        n = rng.choice([0, tot, tot + 1, rng.randint(0, tot)])
        yield "subsample", {"counts": counts, "n": n, "np_seed": seed * 7919 + i}, i < 50
    unis = [([1] * 12, 5), ([10, 1, 5, 4], 7), ([3, 3, 3, 3, 3, 3], 9), ([50, 2, 2], 10), ([1, 20], 3), ([5, 5], 5), ([2, 9, 1, 8], 19), ([7], 3),
            ([30, 30, 30, 30], 5), ([100, 100], 3), ([1] * 50, 3), ([60, 1, 60], 6)]
    for i, (counts, n) in enumerate(unis if not thorough else unis * 3):
        yield "uniform", {"counts": counts, "n": n, "runs": 400 if not thorough else 1500 * TS, "np_seed": seed * 31 + i}, True
    pools = [G.universe("AC", 4), G.universe("ACD", 3)]
    for i in range(1500 * TS if thorough else 120):
        seqs = G.small_multiset(rng, pools[i % 2], 1, 30)
        maxseqs = rng.choice([None, 0, 1, 2, 3, 5, 10, len(seqs), len(seqs) - 1 if len(seqs) > 1 else 1, 100])
        yield "downsample", {"seqs": seqs, "maxseqs": maxseqs, "container": ["list", "ndarray", "table", "series", "table_dupindex"][i % 5], "np_seed": seed * 13 + i}, i < 60
    # heavy tails: exponents close to 1 with thousands of draws (values far beyond 2^63 occur in every such sample)
    for j, (al, size, xm) in enumerate([(1.1, 3000, 1), (1.05, 2000, 1), (1.1, 3000, 5), (1.15, 5000, 2), (1.2, 40000, 1)]):
        yield "powerlaw_sample", {"size": size, "xmin": xm, "alpha": al, "np_seed": seed * 19 + j}, True
    for i in range(600 * TS if thorough else 50):
        yield "powerlaw_sample", {"size": rng.choice([0, 1, 2, 10, 1000]), "xmin": rng.choice([1, 1, 2, 5, 30]),
                                  "alpha": rng.choice([1.1, 1.5, 2.0, 2.5, 3.0, 6.0]), "np_seed": seed * 17 + i}, i < 30
    for i in range(600 * TS if thorough else 50):
        n = rng.randint(2, 200)
        al = rng.choice([1.6, 2.0, 2.5, 3.0, 4.0])
        c = [int(math.floor((1 - 0.5) * (1 - rng.random()) ** (-1 / (al - 1)) + 0.5)) for _ in range(n)]
        c = [min(x, 10 ** 6) for x in c]
        if i % 3 == 0:
            c = [x + rng.randint(0, 3) for x in c]
        cmin = rng.choice([1, 1, 2, 3])
        if max(c) <= cmin:
            c.append(cmin + 5)
        yield "mle", {"c": c, "cmin": cmin}, i < 25
