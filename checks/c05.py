"""C05 - pcDelta is the exact histogram of all pairwise distances."""
import collections
import random
from fractions import Fraction

from vmon import dists as D
from vmon import gens as G
from vmon.gens import THOROUGH_SCALE as TS

TS = TS * 6          # this check is cheap per case: the thorough tier explores six times the common random workload
from vmon import oracles as O

PID = "C05"
RULE = ("hist cases: pcDelta(seqs[, seqs2], metric, bins, normalize, pseudocount) compared with an own loop over unordered "
        "pairs i<j (or all cross pairs) + own half-open/last-closed histogram + count/total or (count+c)/(total+2c); the "
        "metric is the default one (oracle recomputes Levenshtein / summed CDR3 Levenshtein from the columns present) or a "
        "*recording Metric* that logs the collection pcDelta hands it and answers with an oracle-known integer or float "
        "distance. bins=0 cases against exact pair counting. maxseqs cases: the recorder shows the measured collection, "
        "which must be a sub-multiset (tables: row subset with identical contents) of exactly min(N, maxseqs) elements, for "
        "both collections, and the histogram must be the oracle's for that sub-sample. background case: returned edges are "
        "arange(0, rows+1) and align with pcDelta output. distinct_nontrivial = distinct cases with >= 2 distinct distances.")
ASSUMPTIONS = ["float-valued distances and edges are multiples of 0.25 (exactly representable), so bin membership is not a rounding question",
               "values outside [first edge, last edge] are dropped by the NumPy histogram convention and are not part of the total"]
EXHAUSTIVE = {"quick": ["all multisets of size 2..4 over {'', A, B, AB} with bins range(4), counts"],
              "thorough": ["all multisets of size 2..5 over {'', A, B, AB, BA}", "all pairs (xs, ys) of multisets of size 1..3 over {A, B, AB}"]}
REQUIRE = {"hist_big_cases": 1, "same_collection_other_metric_parameters": 14, "hist_cases": 80, "two_collection_cases": 13, "recording_metric_calls": 23, "pseudocount_cases": 15,
           "unnormalized_cases": 20, "values_beyond_last_edge_cases": 8, "float_metric_cases": 8, "bins0_cases": 12,
           "table_cases": 18, "table_alpha_only": 3, "table_beta_only": 3, "table_both": 5, "legacy_tuple_cases": 3,
           "maxseqs_cases": 12, "maxseqs_subsampled": 9, "maxseqs_table_cases": 3, "background_checked": 1,
           "d0_count_checked": 20, "distances_ge_256_cases": 3, "explicit_metric_object_cases": 5, "table_beta_column_first": 3, "maxseqs_table_duplicated_index": 1}
SHARDS = {"quick": 4, "thorough": 16}


def self_test():
    O.self_test()


def _metric_fn(name):
    if name in ("lev", "obj:Levenshtein"):
        return O.lev
    if name == "obj:WeightedLevenshtein253":
        return lambda a, b: O.wlev(a, b, 2, 5, 3)
    if name == "float":
        return lambda a, b: 0.25 * D.compl1(a, b)
    if name == "lendiff":
        return D.lendiff
    raise KeyError(name)


def make_recorder(name, log, table_col=None):
    """A pyrepseq Metric whose answers the oracle knows and which records what it is given."""
    import numpy as np
    from pyrepseq.metric import Metric
    f = _metric_fn(name)

    def items(coll):
        import pandas as pd
        if isinstance(coll, pd.DataFrame):
            return [str(v) for v in coll[table_col].tolist()]
        return [str(v) for v in list(coll)]

    class Recorder(Metric):
        @property
        def name(self):
            return f"recorder:{name}"

        def calc_cdist_matrix(self, anchors, comparisons):
            log.append(("cdist", anchors, comparisons))
            a, b = items(anchors), items(comparisons)
            return np.array([[f(x, y) for y in b] for x in a], dtype=float).reshape(len(a), len(b))

        def calc_pdist_vector(self, instances):
            log.append(("pdist", instances))
            a = items(instances)
            return np.array([f(a[i], a[j]) for i in range(len(a)) for j in range(i + 1, len(a))], dtype=float)
    return Recorder()


def _expected_hist(dists, edges, normalize, pseudocount):
    h = O.hist(dists, edges)
    if not normalize:
        return [float(x) for x in h]
    tot = sum(h)
    if not pseudocount:
        return [x / tot if tot else float("nan") for x in h]
    return [(x + pseudocount) / (tot + 2 * pseudocount) for x in h]


def _same(got, exp):
    import numpy as np
    try:
        g = np.asarray(got, dtype=float).ravel()
    except Exception:
        return False
    if g.shape[0] != len(exp):
        return False
    for a, b in zip(g.tolist(), exp):
        if a != a and b != b:
            continue
        if not abs(a - b) <= 1e-12 + 1e-9 * abs(b):
            return False
    return True


def _container(name, xs):
    return G.make_container(name, xs) if name else list(xs)


def k_hist(ctx, seqs, bins, normalize, pseudocount, metric=None, seqs2=None, container=None):
    import numpy as np
    import pyrepseq as prs
    fname = metric or "lev"
    f = _metric_fn(fname)
    if seqs2 is None:
        dists = [f(seqs[i], seqs[j]) for i in range(len(seqs)) for j in range(i + 1, len(seqs))]
    else:
        dists = [f(a, b) for a in seqs for b in seqs2]
        ctx.count("two_collection_cases")
    edges = list(range(25)) if bins is None else bins
    exp = _expected_hist(dists, edges, normalize, pseudocount)
    ctx.count("hist_cases")
    if pseudocount:
        ctx.count("pseudocount_cases")
    if not normalize:
        ctx.count("unnormalized_cases")
    if any(d > edges[-1] or d < edges[0] for d in dists):
        ctx.count("values_beyond_last_edge_cases")
    if fname == "float":
        ctx.count("float_metric_cases")
    if any(d >= 256 for d in dists):
        ctx.count("distances_ge_256_cases")
    if len(set(dists)) >= 2:
        ctx.nontriv([seqs, seqs2, bins, normalize, pseudocount, metric])
    ctx.sample("hist" + (":two" if seqs2 is not None else ""), {"seqs": seqs[:8], "seqs2": seqs2 and seqs2[:8], "bins": bins,
                                                               "normalize": normalize, "pseudocount": pseudocount, "metric": metric, "expected": exp[:8]})
    log = []
    kw = {"normalize": normalize, "pseudocount": pseudocount}
    if bins is not None:
        kw["bins"] = np.array(bins) if len(bins) % 2 else list(bins)
    if metric and metric.startswith("obj:"):
        # the package's own Metric objects, passed explicitly
        from pyrepseq.metric import Levenshtein, WeightedLevenshtein
        kw["metric"] = Levenshtein() if metric == "obj:Levenshtein" else WeightedLevenshtein(2, 5, 3)
        ctx.count("explicit_metric_object_cases")
    elif metric:
        kw["metric"] = make_recorder(metric, log)
    a = _container(container, seqs)
    b = _container(container, seqs2) if seqs2 is not None else None
    out = ctx.call(prs.pcDelta, a, b, **kw)
    mode = ("two" if seqs2 is not None else "one") + (":custom-metric" if metric else ":default-metric")
    norm = "counts" if not normalize else ("pseudocount" if pseudocount else "normalized")
    if not out.ok:
        ctx.violation(f"pcDelta:{mode}:{norm}:raised:{type(out.exc).__name__}", "pcDelta raised", out.describe(), exp)
        return
    if not _same(out.value, exp):
        ctx.violation(f"pcDelta:{mode}:{norm}:wrong-histogram", "pcDelta differs from the exact pair histogram", out.value, exp,
                      {"n_pairs": len(dists)})
    if metric and not metric.startswith("obj:"):
        ctx.count("recording_metric_calls", len(log))
        # how the metric object is consulted is an implementation choice: the log is only used when it is unambiguous
        if len(log) == 1 and log[0][0] == ("pdist" if seqs2 is None else "cdist"):
            given = [str(v) for v in list(log[0][1])]
            ctx.count("metric_input_observed")
            if collections.Counter(given) != collections.Counter(seqs):
                ctx.count("metric_handed_another_collection")      # observation only: e.g. de-duplicated input is a legitimate implementation
        else:
            ctx.count("metric_usage_other_pattern")
    # count at distance 0 when a bin isolates 0 and distances are integral
    if not normalize and seqs2 is None and fname == "lev" and len(edges) >= 2 and edges[0] == 0 and 0 < edges[1] <= 1 and out.ok:
        cnt = collections.Counter(seqs)
        want0 = sum(n * (n - 1) // 2 for n in cnt.values())
        ctx.count("d0_count_checked")
        try:
            got0 = float(np.asarray(out.value).ravel()[0])
        except Exception:
            got0 = None
        if got0 != want0:
            ctx.violation(f"pcDelta:{mode}:d0-count", "count in the bin isolating distance 0 is not sum n_i(n_i-1)/2", got0, want0)


    # the same collection objects again with another metric object of the same class (other weights), then the first weights again
    if metric == "obj:WeightedLevenshtein253":
        from pyrepseq.metric import WeightedLevenshtein
        for w in ((1, 1, 1), (2, 5, 3)):
            fw = (lambda x, y, w=w: O.wlev(x, y, *w))
            if seqs2 is None:
                dw = [fw(seqs[i], seqs[j]) for i in range(len(seqs)) for j in range(i + 1, len(seqs))]
            else:
                dw = [fw(x, y) for x in seqs for y in seqs2]
            expw = _expected_hist(dw, edges, normalize, pseudocount)
            outw = ctx.call(prs.pcDelta, a, b, **dict(kw, metric=WeightedLevenshtein(*w)))
            ctx.count("same_collection_other_metric_parameters")
            if not outw.ok or not _same(outw.value, expw):
                ctx.violation(f"pcDelta:{mode}:same-collection-other-weights", f"pcDelta of the same collection with WeightedLevenshtein{w} differs from the exact pair histogram",
                              outw.describe(), expw)


def k_bins0(ctx, seqs, seqs2=None, as_table=False):
    import pandas as pd
    import pyrepseq as prs
    ctx.count("bins0_cases")
    if as_table:
        a = pd.DataFrame(seqs, columns=["CDR3A", "CDR3B"])
        b = pd.DataFrame(seqs2, columns=["CDR3A", "CDR3B"]) if seqs2 is not None else None
        ka = [tuple(r) for r in seqs]
        kb = [tuple(r) for r in seqs2] if seqs2 is not None else None
    else:
        a, b, ka, kb = list(seqs), (list(seqs2) if seqs2 is not None else None), seqs, seqs2
    exp = O.pc_pairs(ka) if kb is None else O.pc_cross(ka, kb)
    if exp is not None and 0 < exp < 1:
        ctx.nontriv(["b0", seqs, seqs2, as_table])
    ctx.sample("bins0", {"seqs": seqs[:8], "seqs2": seqs2 and seqs2[:8], "exact": str(exp)})
    out = ctx.call(prs.pcDelta, a, b, bins=0)
    mode = "two" if seqs2 is not None else "one"
    if not out.ok:
        ctx.violation(f"pcDelta:bins0:{mode}:raised", "pcDelta(bins=0) raised", out.describe(), str(exp))
        return
    try:
        ok = abs(float(out.value) - float(exp)) <= 1e-12
    except Exception:
        ok = False
    if not ok:
        ctx.violation(f"pcDelta:bins0:{mode}:wrong-value", "pcDelta(bins=0) is not pc of the same arguments", out.value, str(exp))


def k_table(ctx, rows, cols, bins, normalize, rows2=None, legacy=False, extra=False, index=None, beta_first=False):
    """rows: list of [cdr3a, cdr3b]; cols in {'AB','A','B'}: which CDR3 columns the table has."""
    import numpy as np
    import pandas as pd
    import pyrepseq as prs

    def frame(rs):
        data = {}
        if "A" in cols:
            data["CDR3A"] = [r[0] for r in rs]
        if "B" in cols:
            data["CDR3B"] = [r[1] for r in rs]
        df = pd.DataFrame(data)
        if extra:
            df["clone_count"] = range(len(rs))
            df["TRBV"] = "TRBV9*01"
        if beta_first:
            df = df[list(reversed(list(df.columns)))]      # CDR3B before CDR3A: column order must not matter
        if index == "shifted":
            df.index = range(7, 7 + len(rs))
        elif index == "string":
            df.index = [f"x{i}" for i in range(len(rs))]
        return df

    def dist(r, s):
        d = 0
        if "A" in cols:
            d += O.lev(r[0], s[0])
        if "B" in cols:
            d += O.lev(r[1], s[1])
        return d
    if rows2 is None:
        dists = [dist(rows[i], rows[j]) for i in range(len(rows)) for j in range(i + 1, len(rows))]
    else:
        dists = [dist(r, s) for r in rows for s in rows2]
    edges = list(range(25)) if bins is None else bins
    exp = _expected_hist(dists, edges, normalize, 0.0)
    ctx.count("table_cases")
    ctx.count({"AB": "table_both", "A": "table_alpha_only", "B": "table_beta_only"}[cols])
    if legacy:
        ctx.count("legacy_tuple_cases")
    if beta_first and cols == "AB":
        ctx.count("table_beta_column_first")
    if len(set(dists)) >= 2:
        ctx.nontriv(["T", rows, rows2, cols, bins, normalize, legacy, beta_first])
    ctx.sample(f"table:{cols}" + (":legacy" if legacy else ""), {"rows": rows[:5], "cols": cols, "bins": bins, "expected": exp[:8]})
    if legacy:
        a = ([r[0] for r in rows], [r[1] for r in rows])
        b = ([r[0] for r in rows2], [r[1] for r in rows2]) if rows2 is not None else None
    else:
        a = frame(rows)
        b = frame(rows2) if rows2 is not None else None
    kw = {"normalize": normalize}
    if bins is not None:
        kw["bins"] = bins
    out = ctx.call(prs.pcDelta, a, b, **kw)
    key = f"pcDelta:table-{cols}{'-legacy' if legacy else ''}:{'two' if rows2 is not None else 'one'}"
    if not out.ok:
        ctx.violation(key + f":raised:{type(out.exc).__name__}", "pcDelta on a TCR table raised", out.describe(), exp)
    elif not _same(out.value, exp):
        ctx.violation(key + ":wrong-histogram", "default table metric: histogram differs from the (summed) CDR3 Levenshtein oracle",
                      out.value, exp)


def k_maxseqs(ctx, seqs, maxseqs, seqs2=None, table=False, np_seed=0):
    import numpy as np
    import pandas as pd
    import pyrepseq as prs
    ctx.count("maxseqs_cases")
    log = []
    if table:
        ctx.count("maxseqs_table_cases")
        a = pd.DataFrame({"CDR3B": seqs, "tag": [f"r{i}" for i in range(len(seqs))]},
                         index=[f"i{i}" for i in range(len(seqs))] if (np_seed // 4) % 2 else [f"i{i % 3}" for i in range(len(seqs))])
        if (np_seed // 4) % 2 == 0:
            ctx.count("maxseqs_table_duplicated_index")
        b = None if seqs2 is None else pd.DataFrame({"CDR3B": seqs2, "tag": [f"q{i}" for i in range(len(seqs2))]},
                                                    index=[f"j{i}" for i in range(len(seqs2))])
        rec = make_recorder("lev", log, table_col="CDR3B")
    else:
        a, b = list(seqs), (list(seqs2) if seqs2 is not None else None)
        rec = make_recorder("lev", log)
    bins = list(range(8))
    np.random.seed(np_seed)
    out = ctx.call(prs.pcDelta, a, b, metric=rec, bins=bins, normalize=False, maxseqs=maxseqs)
    ctx.nontriv(["M", seqs, seqs2, maxseqs, table, np_seed])
    ctx.sample("maxseqs", {"n": len(seqs), "n2": seqs2 and len(seqs2), "maxseqs": maxseqs, "table": table})
    key = f"pcDelta:maxseqs:{'table' if table else 'list'}:{'two' if seqs2 is not None else 'one'}"
    if not out.ok:
        ctx.violation(key + ":raised", "pcDelta(maxseqs=) raised", out.describe(), None)
        return
    originals = [seqs] + ([seqs2] if seqs2 is not None else [])
    origobjs = [a] + ([b] if b is not None else [])
    measured = list(log[0][1:]) if len(log) == 1 else None
    if measured is not None and seqs2 is None and len(measured) == 2:
        measured = measured[:1]                      # a one-collection result computed through cdist(x, x)
    if measured is None or len(measured) != len(originals):
        # the sub-sample cannot be observed through this metric-usage pattern: only the size of the result is checked below
        ctx.count("maxseqs_subsample_unobservable")
        return
    sub = []
    for coll, orig, oobj in zip(measured, originals, origobjs):
        want_n = min(len(orig), maxseqs)
        if len(orig) > maxseqs:
            ctx.count("maxseqs_subsampled")
        if table:
            got = [str(v) for v in coll["CDR3B"].tolist()]
            tags = coll["tag"].tolist()
            orig_rows = dict(zip(oobj["tag"].tolist(), oobj["CDR3B"].tolist()))
            if len(set(tags)) != len(tags) or any(t not in orig_rows for t in tags):
                ctx.violation(key + ":not-a-row-subset", "sub-sampled table is not a subset of the input rows (a row repeated or unknown)", tags[:10], list(orig_rows)[:10])
                return
            for t, v in zip(tags, got):
                if orig_rows[t] != v:
                    ctx.violation(key + ":row-content-changed", "a sub-sampled row differs from the input row", [t, v], [t, orig_rows[t]])
                    return
        else:
            got = [str(v) for v in list(coll)]
            if collections.Counter(got) - collections.Counter(orig):
                ctx.violation(key + ":not-a-sub-multiset", "sub-sample is not a sub-multiset of the input (element drawn more often than present)",
                              got[:20], orig[:20])
                return
        if len(got) != want_n:
            ctx.violation(key + ":wrong-size", f"sub-sample has {len(got)} elements, expected min(N={len(orig)}, maxseqs={maxseqs})", len(got), want_n)
            return
        sub.append(got)
    if seqs2 is None:
        s = sub[0]
        dists = [O.lev(s[i], s[j]) for i in range(len(s)) for j in range(i + 1, len(s))]
    else:
        dists = [O.lev(x, y) for x in sub[0] for y in sub[1]]
    exp = _expected_hist(dists, bins, False, 0.0)
    if not _same(out.value, exp):
        ctx.violation(key + ":wrong-histogram", "histogram is not that of the measured sub-sample", out.value, exp)


def k_background(ctx):
    import numpy as np
    import pyrepseq as prs
    first = ctx.call(prs.load_pcDelta_background)
    ctx.call(prs.load_pcDelta_background, return_bins=False)
    out = ctx.call(prs.load_pcDelta_background)          # repeated calls must keep returning the same edges
    if first.ok and out.ok and np.asarray(first.value[1]).tolist() != np.asarray(out.value[1]).tolist():
        ctx.violation("load_pcDelta_background:repeated-call", "a later call returns different bin edges than the first",
                      np.asarray(out.value[1]).tolist(), np.asarray(first.value[1]).tolist())
    ctx.count("background_checked")
    ctx.nontriv("background")
    ctx.nontriv("background2")
    if not out.ok:
        ctx.violation("load_pcDelta_background:raised", "raised", out.describe(), None)
        return
    try:
        back, bins = out.value
    except Exception:
        ctx.violation("load_pcDelta_background:shape", "did not return (table, bins)", out.value, None)
        return
    rows = len(back)
    ctx.sample("background", {"rows": rows, "bins": np.asarray(bins).tolist()})
    if np.asarray(bins).tolist() != list(range(rows + 1)):
        ctx.violation("load_pcDelta_background:bins", "bin edges are not consecutive integers 0..rows", np.asarray(bins).tolist(), list(range(rows + 1)))
    if list(back.index) != list(range(rows)):
        ctx.violation("load_pcDelta_background:index", "table index is not 0..rows-1", list(back.index), list(range(rows)))
    res = ctx.call(prs.pcDelta, ["CASSF", "CASF", "CAWF", "CASSF", "CASSLGF"], bins=bins)
    if not res.ok or len(np.asarray(res.value)) != rows:
        ctx.violation("load_pcDelta_background:alignment", "pcDelta(bins=background bins) does not have one value per table row",
                      res.describe() if not res.ok else len(np.asarray(res.value)), rows)
    only = ctx.call(prs.load_pcDelta_background, return_bins=False)
    if not only.ok or not hasattr(only.value, "index") or len(only.value) != rows:
        ctx.violation("load_pcDelta_background:return_bins-false", "return_bins=False did not return the table alone", only.describe(), None)


def k_hist_big(ctx, n, n2, np_seed):
    """Thousands of elements drawn from a dozen distinct strings: the exact histogram follows from the distances between the distinct
    strings and their multiplicities (sizes just beyond a power of two: block boundaries)."""
    import numpy as np
    import pyrepseq as prs
    rng = random.Random(np_seed)
    distinct = ["CASSF", "CASF", "CAWF", "CASSLF", "CDDDDDF", "CAW", "CDDDDF", "CASSFF", "C", "CASSLGQF", "CAWWF", "CDF"]
    seqs = [rng.choice(distinct) for _ in range(n)]
    seqs2 = [rng.choice(distinct[:7]) for _ in range(n2)] if n2 else None
    edges = list(range(0, 9))
    ca = collections.Counter(seqs)
    h = [0] * (len(edges) - 1)

    def add(d, w):
        for b in range(len(edges) - 1):
            if edges[b] <= d < edges[b + 1] or (b == len(edges) - 2 and d == edges[-1]):
                h[b] += w
    if seqs2 is None:
        keys = sorted(ca)
        for i, a in enumerate(keys):
            add(0, ca[a] * (ca[a] - 1) // 2)
            for b in keys[i + 1:]:
                add(O.lev(a, b), ca[a] * ca[b])
    else:
        cb = collections.Counter(seqs2)
        for a in ca:
            for b in cb:
                add(O.lev(a, b), ca[a] * cb[b])
    ctx.count("hist_big_cases")
    ctx.nontriv(["hbig", n, n2, np_seed])
    ctx.sample("hist_big", {"n": n, "n2": n2, "expected": h})
    out = ctx.call(prs.pcDelta, list(seqs), (list(seqs2) if seqs2 is not None else None), bins=np.array(edges), normalize=False)
    if not out.ok or not _same(out.value, [float(x) for x in h]):
        ctx.violation(f"pcDelta:{'two' if n2 else 'one'}:big:wrong-histogram", f"pcDelta on {n} elements differs from the exact pair histogram", out.describe(), h)


KINDS = {"hist_big": k_hist_big, "hist": k_hist, "bins0": k_bins0, "table": k_table, "maxseqs": k_maxseqs, "background": k_background}

BINS = [None, [0, 1, 2, 3, 4], [0, 1, 2, 5, 9], [0, 2], [0, 1], [1, 3, 4], [0.0, 0.5, 1.0, 1.75, 3.0], [0, 0.25, 0.5], [0, 1, 2, 3, 4, 5, 6, 7, 8, 9, 10, 11, 12, 40]]


def _multisets(items, n):
    import itertools
    return [list(c) for c in itertools.combinations_with_replacement(items, n)]


def generate(tier, seed):
    rng = random.Random(5000 + seed)
    thorough = tier == "thorough"
    yield "background", {}, True
    items = ["", "A", "B", "AB"] + (["BA"] if thorough else [])
    for n in range(2, (6 if thorough else 5)):
        for ms in _multisets(items, n):
            yield "hist", {"seqs": ms, "bins": [0, 1, 2, 3], "normalize": False, "pseudocount": 0.0}, True
    if thorough:
        small = [m for n in (1, 2, 3) for m in _multisets(["A", "B", "AB"], n)]
        for xs in small:
            for ys in small:
                yield "hist", {"seqs": xs, "seqs2": ys, "bins": [0, 1, 2, 3], "normalize": False, "pseudocount": 0.0}, True
    pools = [G.universe("AC", 4), G.universe("ACD", 3), G.hostile_strings(), G.NON_AMINO + G.universe("ab", 2)]
    n_rand = 6000 * TS if thorough else 320
    for i in range(n_rand):
        pool = pools[i % len(pools)]
        seqs = G.small_multiset(rng, pool, 2, 60 if i % 10 == 0 else 14)
        p = {"seqs": seqs, "bins": BINS[i % len(BINS)], "normalize": i % 3 != 0,
             "pseudocount": [0.0, 0.0, 0.5, 1, 3.25][i % 5] if i % 3 != 0 else 0.0,
             "metric": [None, "lev", "float", "lendiff", "obj:Levenshtein", "obj:WeightedLevenshtein253"][(i // 2) % 6],
             "container": [None, None, "ndarray_U", "series_shifted", "tuple"][i % 5]}
        if p["container"] == "tuple" and len(seqs) == 2:
            p["container"] = None
        if i % 4 == 0:
            p["seqs2"] = G.small_multiset(rng, pool, 1, 12)
            if p["container"] == "tuple" and len(p["seqs2"]) == 2:
                p["container"] = None
        yield "hist", p, i < 90
        if i % 5 == 0:
            q = {"seqs": seqs}
            if i % 10 == 0:
                q["seqs2"] = G.small_multiset(rng, pool, 1, 10)
            yield "bins0", q, i < 90
    # repertoires with the default metric and default bins
    for i in range(120 * TS if thorough else 10):
        seqs = G.repertoire(rng, rng.randint(10, 80))
        yield "hist", {"seqs": seqs, "bins": None, "normalize": i % 2 == 0, "pseudocount": 0.5 if i % 4 == 0 else 0.0}, i < 3
    # long strings: default metric, distances beyond 255 (no wrap-around into low bins)
    for i in range(40 * TS if thorough else 6):
        la = [300, 400, 256, 270, 513, 380][i % 6]
        longs = ["A" * la, "C" * (la - 7), G.rand_string(rng, "ACDEFGHIKL", la, la), "CASSF", G.rand_string(rng, "MNPQRSTVWY", 260, 260)]
        p = {"seqs": longs, "bins": [None, [0, 10, 100, 255, 256, 300, 600], [0, 256, 512, 1024]][i % 3], "normalize": i % 2 == 0, "pseudocount": 0.0}
        if i % 2:
            p["seqs2"] = ["CASF", "W" * 290]
        yield "hist", p, True
    # tables
    # sizes just beyond a power of two
    for j, (n, n2) in enumerate([(2049, 0), (1025, 2049)] if not thorough else [(2049, 0), (4097, 0), (2050, 0), (1025, 2049), (4097, 513), (8193, 0)]):
        yield "hist_big", {"n": n, "n2": n2, "np_seed": 5500 + seed + j}, True
    # paired tables whose chains are each at most 255 letters while alpha + beta distances exceed 255
    for j in range(4 if thorough else 2):
        rows = [[G.rand_string(rng, ["ACDEF", "GHIKL", "MNPQR"][r % 3], 135, 200), G.rand_string(rng, ["STVWY", "ACDEF", "GHIKL"][r % 3], 135, 200)] for r in range(5)]
        rows[1] = [G.mutate(rng, rows[0][0], "ACDEF", 4), G.mutate(rng, rows[0][1], "STVWY", 5)]
        yield "table", {"rows": rows, "cols": "AB", "bins": [0, 10, 200, 256, 300, 400, 600], "normalize": False, "index": [None, "string"][j % 2],
                        "rows2": rows[:3] if j % 2 else None}, True
    cells = ["CAF", "CAAF", "CAW", "CF", "CASF", "CAAAF", ""]
    n_tab = 1500 * TS if thorough else 70
    for i in range(n_tab):
        n = rng.randint(2, 12)
        rows = [[rng.choice(cells), rng.choice(cells)] for _ in range(n)]
        if n > 2:
            rows[1] = list(rows[0])
        cols = ["AB", "A", "B"][i % 3]
        p = {"rows": rows, "cols": cols, "bins": [None, [0, 1, 2, 3, 4, 5, 6], [0, 2, 9]][i % 3], "normalize": i % 2 == 0,
             "extra": i % 4 == 1, "index": [None, "shifted", "string"][i % 3], "beta_first": i % 2 == 1}
        if i % 5 == 0:
            p["rows2"] = [[rng.choice(cells), rng.choice(cells)] for _ in range(rng.randint(1, 6))]
        if cols == "AB" and i % 6 == 0:
            p["legacy"] = True
            p["extra"] = False
            p["index"] = None
        yield "table", p, i < 36
        if i % 7 == 0:
            yield "bins0", {"seqs": rows, "as_table": True, "seqs2": p.get("rows2")}, i < 36
    # maxseqs
    n_m = 1200 * TS if thorough else 60
    for i in range(n_m):
        pool = pools[i % 2]
        seqs = G.small_multiset(rng, pool, 2, 30)
        p = {"seqs": seqs, "maxseqs": rng.choice([2, 3, 5, 10, 100]), "table": i % 4 == 3, "np_seed": i}
        if i % 3 == 0:
            p["seqs2"] = G.small_multiset(rng, pool, 1, 30)
        yield "maxseqs", p, i < 24
