"""C01 - default neighbour search returns exactly the pairs within max_edits."""
import random

from vmon import gens as G
from vmon.gens import THOROUGH_SCALE as TS
from vmon import oracles as O
from vmon import search as S

PID = "C01"
RULE = ("each case = one collection of strings x max_edits; nearest_neighbor and symdel are both "
        "called on it and each returned triplet multiset is compared with the double-loop "
        "Levenshtein oracle. Cases: whole small universes in one call (exhaustive parts), random "
        "multisets drawn from those universes, CDR3-like mutated clonal repertoires, hostile and "
        "non-amino strings. distinct_nontrivial = distinct (sequence list, max_edits) whose oracle "
        "neighbour set is non-empty.")
ASSUMPTIONS = ["oracle: two-row Wagner-Fischer DP (vmon/oracles.py), self-tested against a recursive definition",
               "inputs are passed as plain Python lists (containers are C10's subject)",
               "held on the executions observed; exhaustive only up to the stated universe bounds"]
EXHAUSTIVE = {"quick": ["all strings len<=6 over AC in one call, k=1..7", "all strings len<=4 over ACD, k=1..5"],
              "thorough": ["all strings len<=8 over AC, k=1..4", "all strings len<=4 over ACDW, k=1..4",
                           "all strings len<=6 over AC, k=1..7", "all strings len<=4 over ACD, k=1..5",
                           "all strings len<=3 over ACD: every pair as a 2-element input, k=1..4"]}
REQUIRE = {"self_after_cross_cases": 9, "inputs_with_indel_neighbour_pairs": 5, "inputs_with_d0_pairs": 5, "inputs_shorter-than-k": 3,
           "inputs_empty-string": 3, "inputs_k>=2": 5, "inputs_non-amino": 2, "inputs_single": 1,
           "triplets_compared": 1000}
SHARDS = {"quick": 6, "thorough": 16}


def self_test():
    O.self_test()


def k_self(ctx, seqs, k):
    expected = O.neigh_self(seqs, k)
    S.class_counters(ctx, seqs, k, expected)
    if expected:
        ctx.nontriv([seqs, k])
    ctx.sample("self_search", {"seqs": seqs[:12], "k": k, "n": len(seqs), "neighbour_triplets": sum(expected.values())})
    import pyrepseq
    for name in ("nearest_neighbor", "symdel"):
        fn = getattr(pyrepseq, name)
        out = ctx.call(fn, list(seqs), max_edits=k)
        S.expect_triplets(ctx, out, expected, name, "self")
    variant = (len(seqs) + k) % 4
    if variant == 0:        # the same call with max_edits given positionally
        out = ctx.call(pyrepseq.nearest_neighbor, list(seqs), k)
        S.expect_triplets(ctx, out, expected, "nearest_neighbor", "self-positional")
        ctx.count("positional_calls")
    elif variant == 1:
        out = ctx.call(pyrepseq.symdel, list(seqs), k, None, 1, None, float("inf"), "triplets", None, False)
        S.expect_triplets(ctx, out, expected, "symdel", "self-positional")
        ctx.count("positional_calls")
    elif variant == 2 and len(seqs) <= 200:
        out = ctx.call(pyrepseq.symdel, list(seqs), max_edits=k, progress=False, n_cpu=1, max_returns=None)
        S.expect_triplets(ctx, out, expected, "symdel", "self-explicit-defaults")


def k_self_after_cross(ctx, refs, queries, seqs, k):
    """a one-collection search that follows two-collection searches (same max_edits) whose queries reappear in it:
    nothing the earlier calls computed for those sequences may leak into the later answer"""
    import pyrepseq
    import pyrepseq.nn as nn
    ctx.count("self_after_cross_cases")
    ctx.call(pyrepseq.symdel, list(refs), max_edits=k, seqs2=list(queries))
    ctx.call(pyrepseq.nearest_neighbor, list(refs), max_edits=k, seqs2=list(queries))
    db = ctx.call(nn.SymdelDB, list(refs), k)
    if db.ok:
        ctx.call(db.value.lookup, list(queries))
    expected = O.neigh_self(seqs, k)
    if expected:
        ctx.nontriv(["after-cross", refs, queries, seqs, k])
    ctx.sample("self_after_cross", {"refs": refs[:6], "queries": queries[:6], "seqs": seqs[:8], "k": k})
    for name in ("nearest_neighbor", "symdel"):
        out = ctx.call(getattr(pyrepseq, name), list(seqs), max_edits=k)
        S.expect_triplets(ctx, out, expected, name, "self-after-cross")


def k_big(ctx, n, np_seed, plant):
    """very large collections at max_edits=1 (size-dependent paths); oracle: wildcard/deletion hashing confirmed by the DP"""
    import pyrepseq
    rng = random.Random(np_seed)
    seqs = ["C" + "".join(rng.choice(G.AA) for _ in range(13)) for _ in range(n)]
    for t in range(plant):                       # planted neighbours far apart in the list, incl. at positions beyond 2^16
        i, j = rng.randrange(n), n - 1 - rng.randrange(min(n, 300))
        seqs[j] = G.mutate(rng, seqs[i], G.AA, t % 2)
    if n > 65536 + 400:
        # clonal families whose members sit at low positions and just beyond 2^16 (and at the very end): mutual neighbours
        for f in range(0, 300, 3):
            base = seqs[f]
            pos = 1 + f % 12
            letters = [c for c in G.AA if c != base[pos]]
            for m, where in enumerate((f + 1, f + 2, 65536 + f + 2, n - 1 - f)):
                seqs[where] = base[:pos] + letters[m] + base[pos + 1:]
    expected = O.neigh_self_k1_big(seqs)
    ctx.count("big_inputs")
    ctx.nontriv(["big", n, np_seed, plant])
    ctx.sample("big", {"n": n, "planted": plant, "neighbour_triplets": sum(expected.values())})
    out = ctx.call(pyrepseq.nearest_neighbor, seqs, max_edits=1)
    S.expect_triplets(ctx, out, expected, "nearest_neighbor", f"self-large-input")


KINDS = {"self": k_self, "big": k_big, "self_after_cross": k_self_after_cross}


def generate(tier, seed):
    rng = random.Random(1000 + seed)
    thorough = tier == "thorough"
    # ---- exhaustive parts (mandatory)
    u = G.universe("AC", 6)
    for k in range(1, 8):
        yield "self", {"seqs": u, "k": k}, True
    u = G.universe("ACD", 4)
    for k in range(1, 6):
        yield "self", {"seqs": u, "k": k}, True
    for s in (["A"], [""], ["CASSF"], ["", ""], ["", "A"], ["A", "A"], ["AB", "BA"]):
        for k in (1, 2, 3):
            yield "self", {"seqs": s, "k": k}, True
    hostile = G.hostile_strings()
    for k in (1, 2, 3, 9):
        yield "self", {"seqs": hostile, "k": k}, True
        yield "self", {"seqs": G.NON_AMINO, "k": k}, True
    if thorough:
        u = G.universe("AC", 8)
        for k in range(1, 5):
            yield "self", {"seqs": u, "k": k}, True
        u = G.universe("ACDW", 4)
        for k in range(1, 5):
            yield "self", {"seqs": u, "k": k}, True
        u3 = G.universe("ACD", 3)
        for i, a in enumerate(u3):
            for b in u3[i:]:
                yield "self", {"seqs": [a, b], "k": 1 + (len(a) + len(b)) % 4}, True
    # strings of more than a thousand letters whose neighbours differ near the end, in the middle and at the start
    base = "".join(random.Random(77 + seed).choice(G.AA) for _ in range(1200))
    longs = [base, base[:1100] + ("A" if base[1100] != "A" else "C") + base[1101:], base[:1150] + base[1151:], base + "W",
             base[:600] + base[601:], ("A" if base[0] != "A" else "C") + base[1:], base[:1025], base[:1024] + ("A" if base[1024] != "A" else "C")]
    yield "self", {"seqs": longs, "k": 1}, True
    yield "big", {"n": 4000, "np_seed": seed + 1, "plant": 300}, True
    # one-collection searches that follow two-collection searches with overlapping sequences and the same max_edits
    fam = ["CASSIRSSYEQYF", "CASSIRSYEQYF", "CASSIRSSYEQYY", "CASSLAQETQYF", "CASSLAQETQYY", "CASLAQETQYF", "CAWSF", "CAWF", "CAF"]
    for k in (1, 2, 3):
        yield "self_after_cross", {"refs": ["CASSF", "CATSF", "CAWSVGQYF"], "queries": fam[::2], "seqs": fam, "k": k}, True
        yield "self_after_cross", {"refs": fam[:3], "queries": fam, "seqs": list(reversed(fam)), "k": k}, True
        yield "self_after_cross", {"refs": ["W"], "queries": G.universe("AC", 4), "seqs": G.universe("AC", 4), "k": k}, True
    for i in range(200 if thorough else 20):
        rep = G.repertoire(rng, rng.randint(12, 50))
        yield "self_after_cross", {"refs": G.repertoire(rng, rng.randint(1, 20)), "queries": rng.sample(rep, len(rep) // 2), "seqs": rep, "k": rng.choice([1, 2, 3])}, i < 4
    if thorough:
        yield "big", {"n": 66000, "np_seed": seed + 2, "plant": 3000}, True
        yield "big", {"n": 20000, "np_seed": seed + 3, "plant": 2000}, True
    # ---- random multisets from small universes (duplicates, shuffles)
    pools = [G.universe("AC", 6), G.universe("ACD", 4), G.universe("ACDW", 3), G.universe("A", 8),
             G.universe("AC", 5) + hostile, G.NON_AMINO + G.universe("ab", 3)]
    n_rand = 400 if not thorough else 6000 * TS
    for i in range(n_rand):
        pool = pools[i % len(pools)]
        seqs = G.small_multiset(rng, pool, 1, 60)
        k = rng.choice([1, 1, 2, 2, 3, 4, 5])
        yield "self", {"seqs": seqs, "k": k}, i < 120
    # ---- CDR3-like repertoires
    n_rep = 40 if not thorough else 400 * TS
    for i in range(n_rep):
        n = rng.randint(30, 150) if not thorough else rng.randint(50, 400)
        seqs = G.repertoire(rng, n, families=max(2, n // rng.choice([4, 8, 20])))
        if i % 5 == 0:
            seqs = seqs + rng.sample(hostile, 4)
            rng.shuffle(seqs)
        yield "self", {"seqs": seqs, "k": rng.choice([1, 2, 2, 3])}, i < 10
