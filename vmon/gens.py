"""Workload generators.  All output is JSON data (lists of strings, numbers, names of containers)
so that every case can be written to a replay file and re-executed."""
import itertools
import random

import os

AA = "ACDEFGHIKLMNPQRSTVWY"
# thorough tiers multiply their random workloads by this factor; the per-shard soft time budget caps what is actually run
THOROUGH_SCALE = int(os.environ.get("VERIF_THOROUGH_SCALE", "4"))


def universe(alphabet, maxlen, minlen=0):
    return ["".join(t) for L in range(minlen, maxlen + 1) for t in itertools.product(alphabet, repeat=L)]


def rand_string(rng, alphabet, lo, hi):
    return "".join(rng.choice(alphabet) for _ in range(rng.randint(lo, hi)))


def mutate(rng, s, alphabet, nedits):
    for _ in range(nedits):
        op = rng.choice("sid")
        if op == "s" and s:
            i = rng.randrange(len(s))
            s = s[:i] + rng.choice(alphabet) + s[i + 1:]
        elif op == "d" and s:
            i = rng.randrange(len(s))
            s = s[:i] + s[i + 1:]
        else:
            i = rng.randint(0, len(s))
            s = s[:i] + rng.choice(alphabet) + s[i:]
    return s


def repertoire(rng, n, families=None, alphabet=AA, lo=6, hi=16, maxmut=3, cdr3=True):
    """CDR3-like repertoire of mutated clonal families with exact duplicates, shuffled."""
    families = families or max(1, n // 6)
    roots = []
    for _ in range(families):
        body = rand_string(rng, alphabet, lo, hi)
        roots.append(("C" + body + rng.choice("FW")) if cdr3 else body)
    out = []
    while len(out) < n:
        r = rng.choice(roots)
        if rng.random() < 0.12 and out:
            out.append(rng.choice(out))
        else:
            out.append(mutate(rng, r, alphabet, rng.choice([0, 1, 1, 2, 2, 3][:maxmut + 3])))
    rng.shuffle(out)
    return out[:n]


def small_multiset(rng, pool, lo, hi):
    n = rng.randint(lo, hi)
    out = [rng.choice(pool) for _ in range(n)]
    if n > 2 and rng.random() < 0.5:          # force duplicates
        out[rng.randrange(n)] = out[rng.randrange(n)]
    return out


def hostile_strings():
    out = ["", "A", "C", "AA", "AAA", "AAAA", "AAAAA", "AAAAAA", "AAAAAAA", "AAAAAAAA",
           "AAB", "ABB", "ABA", "BAA", "AB", "BA", "ABAB", "BABA", "AABB"]
    return out


NON_AMINO = ["0", "01", "10", "011", "abc", "abd", "ab", "αβγ", "αβ", "αγγ", "汉字", "汉", "字汉字",
             "\U0001F600a", "\U0001F600", "a\U0001F600b", "x-y", "x_y", "x.y", " ", "  ", " a",
             "a\n", "\n", "ab\n", "a\tb", "ab\r"]
# strings that differ only by a trailing NUL (numpy's fixed-width unicode drops it): only for functions that do not go through such arrays
NUL_STRINGS = ["A\x00", "A", "AB\x00", "AB", "\x00", "", "A\x00\x00", "\x00A"]


CONTAINERS = ["list", "tuple", "ndarray_U", "ndarray_O", "series_default", "series_shifted",
              "series_permuted", "series_string", "series_duplicated", "series_range_step2"]


def make_container(name, xs):
    """Build the named container around the list xs (positions are ordinals in every case)."""
    import numpy as np
    import pandas as pd
    xs = list(xs)
    n = len(xs)
    if name == "list":
        return xs
    if name == "tuple":
        return tuple(xs)
    if name == "ndarray_U":
        return np.array(xs, dtype=str)
    if name == "ndarray_O":
        a = np.empty(n, dtype=object)
        for i, x in enumerate(xs):
            a[i] = x
        return a
    if name == "series_default":
        return pd.Series(xs, dtype=object)
    if name == "series_shifted":
        return pd.Series(xs, index=range(5, 5 + n), dtype=object)
    if name == "series_permuted":
        idx = list(range(n))
        random.Random(n * 7919 + 13).shuffle(idx)
        if idx == list(range(n)) and n > 1:
            idx = idx[1:] + idx[:1]
        return pd.Series(xs, index=idx, dtype=object)
    if name == "series_string":
        return pd.Series(xs, index=[f"r{i}" for i in range(n)], dtype=object)
    if name == "series_range_step2":
        return pd.Series(xs, index=pd.RangeIndex(0, 2 * n, 2), dtype=object)       # what df[col].iloc[::2] carries
    if name == "series_duplicated":
        return pd.Series(xs, index=[i // 2 for i in range(n)], dtype=object)
    raise KeyError(name)


def partitions(n, maxpart=None):
    """Integer partitions of n as descending tuples."""
    maxpart = maxpart or n
    if n == 0:
        yield ()
        return
    for k in range(min(n, maxpart), 0, -1):
        for rest in partitions(n - k, k):
            yield (k,) + rest


def count_vectors(N, K):
    """All length-K vectors of non-negative ints summing to N."""
    if K == 1:
        yield (N,)
        return
    for first in range(N + 1):
        for rest in count_vectors(N - first, K - 1):
            yield (first,) + rest
