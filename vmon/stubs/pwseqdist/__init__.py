"""Vendored stand-in for the optional dependency `pwseqdist` (absent from the sandbox).

Only the two names pyrepseq uses are provided.  The CDR3 distance follows the published TCRdist
recipe (BLOSUM62-derived substitution cost min(4, 4 - blosum), N/C-terminal trimming, gap penalty per
missing residue, gap placed at the best or at a fixed position); every call is *recorded* so that the
C14 monitor can check what pyrepseq handed to the dependency.  It is a stand-in: what C14 decides is
pyrepseq's composition around this function, not the real library.
"""
import numpy as np

from . import metrics  # noqa: F401

CALLS = []          # event log: one dict per apply_pairwise_sparse call


def pair_distance(a, b, ntrim=3, ctrim=2, dist_weight=3, gap_penalty=12, fixed_gappos=False, **_ignored):
    return metrics.tcrdist_cdr3(a, b, ntrim=ntrim, ctrim=ctrim, dist_weight=dist_weight,
                                gap_penalty=gap_penalty, fixed_gappos=fixed_gappos)


def apply_pairwise_sparse(metric, seqs, pairs, ncpus=1, use_numba=False, **kwargs):
    if metric is not metrics.nb_vector_tcrdist:
        raise ValueError("stub pwseqdist only provides nb_vector_tcrdist")
    seqs = np.asarray(seqs)
    pairs = np.asarray(pairs)
    CALLS.append({"n_seqs": len(seqs), "n_pairs": len(pairs), "kwargs": dict(kwargs, use_numba=use_numba),
                  "seqs": [str(s) for s in seqs[:50]]})
    out = np.zeros(len(pairs), dtype=np.int64)
    for n, (i, j) in enumerate(pairs):
        out[n] = pair_distance(str(seqs[int(i)]), str(seqs[int(j)]), **kwargs)
    return out
