import functools


@functools.lru_cache(maxsize=1)
def _sub():
    from Bio.Align import substitution_matrices
    b = substitution_matrices.load("BLOSUM62")
    aa = "ACDEFGHIKLMNPQRSTVWY"
    return {(x, y): (0 if x == y else min(4, 4 - int(b[x][y]))) for x in aa for y in aa}


def _cost(x, y):
    if x == y:
        return 0
    return _sub().get((x, y), 4)


def tcrdist_cdr3(a, b, ntrim=3, ctrim=2, dist_weight=3, gap_penalty=12, fixed_gappos=False):
    """TCRdist-style CDR3 distance (stand-in)."""
    if len(a) > len(b):
        a, b = b, a
    la, lb = len(a), len(b)
    gap = lb - la
    if gap == 0:
        core = range(ntrim, la - ctrim)
        return dist_weight * sum(_cost(a[i], b[i]) for i in core)
    if fixed_gappos:
        positions = [min(6, 3 + (la - 5) // 2)]
    else:
        positions = range(max(0, min(5, la // 2)), max(1, la - 3))
        positions = list(positions) or [la // 2]
    best = None
    for g in positions:
        g = max(0, min(la, g))
        al = a[:g] + "-" * gap + a[g:]
        s = 0
        for i in range(ntrim, lb - ctrim):
            if al[i] != "-":
                s += _cost(al[i], b[i])
        if best is None or s < best:
            best = s
    return dist_weight * (best or 0) + gap_penalty * gap


def nb_vector_tcrdist(*args, **kwargs):  # sentinel: identity is what apply_pairwise_sparse checks
    raise NotImplementedError("stub: use pwseqdist.apply_pairwise_sparse(metric=nb_vector_tcrdist, ...)")
