"""Reference models.  Small, slow, obviously-correct definitions.

Nothing here imports pyrepseq, rapidfuzz or python-Levenshtein (the latter wraps rapidfuzz in this
environment and would not be an independent witness).
"""
import collections
import functools
import itertools
import math
from fractions import Fraction

INF = float("inf")


# ------------------------------------------------------------------------------------------
# edit distances
# ------------------------------------------------------------------------------------------

def wlev(a, b, ins=1, dele=1, sub=1):
    """Minimum total weight of insertions/deletions/substitutions turning a into b."""
    la, lb = len(a), len(b)
    prev = [j * ins for j in range(lb + 1)]
    for i in range(1, la + 1):
        ca = a[i - 1]
        cur = [i * dele] + [0] * lb
        for j in range(1, lb + 1):
            if ca == b[j - 1]:
                best = prev[j - 1]
            else:
                best = prev[j - 1] + sub
            d = prev[j] + dele
            if d < best:
                best = d
            d = cur[j - 1] + ins
            if d < best:
                best = d
            cur[j] = best
        prev = cur
    return prev[lb]


@functools.lru_cache(maxsize=1 << 21)
def _lev_sorted(a, b):
    return wlev(a, b)


def lev(a, b):
    """Levenshtein distance on code points (symmetric; memoised)."""
    a, b = str(a), str(b)
    if a == b:
        return 0
    return _lev_sorted(a, b) if a <= b else _lev_sorted(b, a)


def lev_recursive(a, b):
    """Second, structurally different definition (self-test only)."""
    @functools.lru_cache(maxsize=None)
    def go(i, j):
        if i == 0:
            return j
        if j == 0:
            return i
        return min(go(i - 1, j) + 1, go(i, j - 1) + 1, go(i - 1, j - 1) + (a[i - 1] != b[j - 1]))
    return go(len(a), len(b))


def ham(a, b):
    """Hamming distance; infinite for unequal lengths."""
    if len(a) != len(b):
        return INF
    return sum(1 for x, y in zip(a, b) if x != y)


# ------------------------------------------------------------------------------------------
# neighbour sets (triplet multisets)
# ------------------------------------------------------------------------------------------

def _comp(s):
    return collections.Counter(s)


def comp_l1(ca, cb):
    """L1 distance of letter-count vectors.  One edit changes it by at most 2, so
    comp_l1 > 2k implies lev > k (sound pre-filter; checked exhaustively in self_test)."""
    return sum(abs(ca[c] - cb.get(c, 0)) for c in ca) + sum(v for c, v in cb.items() if c not in ca)


def neigh_self(seqs, k, mode="lev"):
    """Counter of (i, j, d) for all ordered pairs of distinct positions with d <= k."""
    out = collections.Counter()
    n = len(seqs)
    lens = [len(s) for s in seqs]
    comps = [_comp(s) for s in seqs] if mode == "lev" else None
    for i in range(n):
        a = seqs[i]
        for j in range(i + 1, n):
            if mode == "lev":
                if abs(lens[i] - lens[j]) > k or comp_l1(comps[i], comps[j]) > 2 * k:
                    continue
                d = lev(a, seqs[j])
            else:
                if lens[i] != lens[j]:
                    continue
                d = ham(a, seqs[j])
            if d <= k:
                out[(i, j, d)] += 1
                out[(j, i, d)] += 1
    return out


def neigh_self_k1_big(seqs):
    """max_edits = 1 neighbour set for large collections, by wildcard / deletion hashing (independent of the
    symmetric-delete index of the code under test in its bookkeeping; every candidate is confirmed with the DP)."""
    out = collections.Counter()
    by_string = collections.defaultdict(list)
    for i, s in enumerate(seqs):
        by_string[s].append(i)
    def emit(i, j, d):
        out[(i, j, d)] = 1
        out[(j, i, d)] = 1
    for s, idx in by_string.items():
        for a in range(len(idx)):
            for b in range(a + 1, len(idx)):
                emit(idx[a], idx[b], 0)
    wild = collections.defaultdict(set)
    for s in by_string:
        for p in range(len(s)):
            wild[(s[:p], s[p + 1:])].add(s)
    for group in wild.values():
        if len(group) > 1:
            g = sorted(group)
            for a in range(len(g)):
                for b in range(a + 1, len(g)):
                    if lev(g[a], g[b]) == 1:
                        for i in by_string[g[a]]:
                            for j in by_string[g[b]]:
                                emit(i, j, 1)
    for s in by_string:
        seen = set()
        for p in range(len(s)):
            v = s[:p] + s[p + 1:]
            if v in by_string and v not in seen:
                seen.add(v)
                for i in by_string[s]:
                    for j in by_string[v]:
                        emit(i, j, 1)
    return out


def neigh_cross(queries, refs, k, mode="lev"):
    """Counter of (q, r, d) with d(queries[q], refs[r]) <= k."""
    out = collections.Counter()
    rcomps = [_comp(b) for b in refs] if mode == "lev" else None
    for q, a in enumerate(queries):
        la = len(a)
        ca = _comp(a)
        for r, b in enumerate(refs):
            if mode == "lev":
                if abs(la - len(b)) > k or comp_l1(ca, rcomps[r]) > 2 * k:
                    continue
                d = lev(a, b)
            else:
                if la != len(b):
                    continue
                d = ham(a, b)
            if d <= k:
                out[(q, r, d)] += 1
    return out


def num(x):
    """Canonical number: ints for integral values, rounded floats otherwise."""
    try:
        f = float(x)
    except (TypeError, ValueError):
        return repr(x)
    if f != f:
        return "nan"
    if f in (INF, -INF):
        return repr(f)
    if f == int(f) and abs(f) < 1e15:
        return int(f)
    return round(f, 9)


def canon_triplets(result):
    """Observed triplets -> Counter of (int, int, number); order/container/scalar type irrelevant."""
    out = collections.Counter()
    for t in result:
        i, j, d = t[0], t[1], t[2]
        out[(int(i), int(j), num(d))] += 1
    return out


def diff_triplets(observed, expected, self_mode=True):
    """Classify the difference between two triplet Counters; returns (shape, detail) or None."""
    if observed == expected:
        return None
    rep = [t for t, c in observed.items() if c > 1 and expected.get(t, 0) <= 1]
    obs_pairs = {(i, j): d for (i, j, d) in observed}
    exp_pairs = {(i, j): d for (i, j, d) in expected}
    selfp = [t for t in observed if t[0] == t[1] and t not in expected] if self_mode else []
    missing = [t for t in expected if (t[0], t[1]) not in obs_pairs]
    spurious = [t for t in observed if (t[0], t[1]) not in exp_pairs]
    wrongd = [(t, exp_pairs[(t[0], t[1])]) for t in observed
              if (t[0], t[1]) in exp_pairs and exp_pairs[(t[0], t[1])] != t[2]]
    if selfp:
        return "self-pair", sorted(selfp)[:5]
    if rep and not missing and not spurious and not wrongd:
        return "repeated", sorted(rep)[:5]
    if missing and not spurious:
        return "missing", sorted(missing)[:5]
    if spurious and not missing:
        return "spurious", sorted(spurious)[:5]
    if wrongd and not missing and not spurious:
        return "wrong-distance", wrongd[:5]
    return "mixed", {"missing": sorted(missing)[:4], "spurious": sorted(spurious)[:4],
                     "wrong_d": wrongd[:4], "repeated": sorted(rep)[:4]}


# ------------------------------------------------------------------------------------------
# coincidence statistics (exact)
# ------------------------------------------------------------------------------------------

def pc_pairs(xs):
    """Ordered pairs of distinct positions holding equal elements / N(N-1), exact."""
    xs = list(xs)
    n = len(xs)
    c = 0
    for i in range(n):
        for j in range(n):
            if i != j and xs[i] == xs[j]:
                c += 1
    return Fraction(c, n * (n - 1)) if n > 1 else None


def pc_cross(xs, ys):
    xs, ys = list(xs), list(ys)
    c = sum(1 for x in xs for y in ys if x == y)
    return Fraction(c, len(xs) * len(ys)) if xs and ys else None


def falling(x, k):
    out = 1
    for i in range(k):
        out *= (x - i)
    return out


def U2(n):
    """Unique unbiased estimator of sum p_i^2 from counts n."""
    N = sum(n)
    return Fraction(sum(falling(x, 2) for x in n), falling(N, 2))


def U22(n):
    """Unique unbiased estimator of (sum p_i^2)^2 from counts n (needs N >= 4)."""
    N = sum(n)
    s = sum(falling(x, 4) for x in n)
    f2 = [falling(x, 2) for x in n]
    tot = sum(f2)
    cross = tot * tot - sum(v * v for v in f2)
    return Fraction(s + cross, falling(N, 4))


def hist(values, edges):
    """numpy.histogram convention: half-open bins, last bin closed; values outside are dropped."""
    edges = list(edges)
    nb = len(edges) - 1
    out = [0] * nb
    for v in values:
        if v != v:
            continue
        if v < edges[0] or v > edges[-1]:
            continue
        if v == edges[-1]:
            out[nb - 1] += 1
            continue
        lo, hi = 0, nb
        # linear scan is fine and obviously right
        for b in range(nb):
            if edges[b] <= v < edges[b + 1]:
                out[b] += 1
                break
    return out


# ------------------------------------------------------------------------------------------
# graphs, joins
# ------------------------------------------------------------------------------------------

def components(n, edges):
    """Union-find: returns list root[i] (canonical: smallest member)."""
    parent = list(range(n))

    def find(x):
        while parent[x] != x:
            parent[x] = parent[parent[x]]
            x = parent[x]
        return x
    for a, b in edges:
        ra, rb = find(a), find(b)
        if ra != rb:
            if ra < rb:
                parent[rb] = ra
            else:
                parent[ra] = rb
    return [find(i) for i in range(n)]


def partition_of(labels):
    """Partition (frozenset of frozensets of positions) induced by a label vector."""
    groups = collections.defaultdict(list)
    for i, l in enumerate(labels):
        groups[l].append(i)
    return frozenset(frozenset(v) for v in groups.values())


# ------------------------------------------------------------------------------------------
# one-edit neighbourhoods
# ------------------------------------------------------------------------------------------

def lev1_ball(x, alphabet):
    """Set of strings at Levenshtein distance exactly 1 from x over alphabet (naive)."""
    out = set()
    for i in range(len(x)):
        out.add(x[:i] + x[i + 1:])
        for a in alphabet:
            out.add(x[:i] + a + x[i + 1:])
    for i in range(len(x) + 1):
        for a in alphabet:
            out.add(x[:i] + a + x[i:])
    out.discard(x)
    return out


def ham1_ball(x, alphabet, positions=None):
    out = set()
    pos = range(len(x)) if positions is None else positions
    for i in pos:
        for a in alphabet:
            if a != x[i]:
                out.add(x[:i] + a + x[i + 1:])
    return out


def all_strings(alphabet, maxlen):
    for L in range(maxlen + 1):
        for t in itertools.product(alphabet, repeat=L):
            yield "".join(t)


# ------------------------------------------------------------------------------------------
# self test (run at the start of every shard)
# ------------------------------------------------------------------------------------------

def self_test():
    import random
    univ = list(all_strings("AC", 4))
    for a in univ:
        for b in univ:
            assert lev(a, b) == lev_recursive(a, b), (a, b)
            assert wlev(a, b, 1, 1, 1) == lev(a, b)
    for a in univ:
        for b in univ:
            assert comp_l1(_comp(a), _comp(b)) <= 2 * lev(a, b), (a, b)
    rng = random.Random(12345)
    al = "ACDW"
    for _ in range(300):
        a, b, c = ("".join(rng.choice(al) for _ in range(rng.randint(0, 7))) for _ in range(3))
        assert lev(a, b) == lev(b, a)
        assert (lev(a, b) == 0) == (a == b)
        assert lev(a, c) <= lev(a, b) + lev(b, c)
        # asymmetric weights: turning a into b with (ins, del) equals turning b into a with (del, ins)
        assert wlev(a, b, 2, 5, 3) == wlev(b, a, 5, 2, 3)
    assert wlev("", "ABC", 2, 5, 3) == 6 and wlev("ABC", "", 2, 5, 3) == 15
    assert wlev("AB", "AC", 1, 1, 7) == 2
    pool = [u for u in univ] + ["ACCA", "ACCA", ""]
    assert neigh_self_k1_big(pool) == neigh_self(pool, 1)
    assert hist([0, 1, 1, 2, 5, 6], [0, 1, 2, 5]) == [1, 2, 2]
    assert U2([2, 1, 1]) == Fraction(2, 12)
    assert components(4, [(0, 2), (2, 3)]) == [0, 1, 0, 0]
