"""Deep fingerprints (argument / state purity monitors) and value canonicalisation."""
import hashlib


_FLAGS = {"object_state": True}


def _h(b):
    return hashlib.blake2b(b, digest_size=10).hexdigest()


def fingerprint(x, depth=0):
    """Structure-, dtype-, index- and content-sensitive fingerprint of a Python/NumPy/pandas value."""
    import numpy as np
    import pandas as pd
    if depth > 8:
        return "deep"
    if x is None or isinstance(x, (bool, int, float, str, bytes, complex)):
        return f"{type(x).__name__}:{x!r}"
    if isinstance(x, np.generic):
        return f"np.{type(x).__name__}:{x!r}"
    if isinstance(x, np.ndarray):
        if x.dtype == object:
            return f"nd[{x.shape}|O|" + _h("\x1f".join(fingerprint(v, depth + 1) for v in x.ravel()).encode("utf8", "surrogatepass")) + "]"
        return f"nd[{x.shape}|{x.dtype}|" + _h(np.ascontiguousarray(x).tobytes()) + "]"
    if isinstance(x, pd.DataFrame):
        cols = [fingerprint(c, depth + 1) for c in x.columns]
        body = [fingerprint(x.iloc[:, i], depth + 1) for i in range(x.shape[1])]
        return "DF[" + _h("\x1e".join(cols + body + [fingerprint(x.index, depth + 1)]).encode("utf8", "surrogatepass")) + f"|{x.shape}]"
    if isinstance(x, pd.Series):
        vals = "\x1f".join(fingerprint(v, depth + 1) for v in x.tolist())
        return f"S[{x.dtype}|{x.name!r}|" + _h((vals + "\x1e" + fingerprint(x.index, depth + 1)).encode("utf8", "surrogatepass")) + "]"
    if isinstance(x, pd.Index):
        return f"I[{x.dtype}|{x.names!r}|" + _h("\x1f".join(repr(v) for v in x.tolist()).encode("utf8", "surrogatepass")) + "]"
    if isinstance(x, dict):
        items = [(fingerprint(k, depth + 1), fingerprint(v, depth + 1)) for k, v in x.items()]
        return "{" + _h(repr(items).encode("utf8", "surrogatepass")) + f"|{len(x)}" + "}"
    if isinstance(x, (list, tuple)):
        return f"{type(x).__name__}(" + _h("\x1f".join(fingerprint(v, depth + 1) for v in x).encode("utf8", "surrogatepass")) + f"|{len(x)})"
    if isinstance(x, (set, frozenset)):
        return f"{type(x).__name__}(" + _h("\x1f".join(sorted(fingerprint(v, depth + 1) for v in x)).encode("utf8", "surrogatepass")) + ")"
    if type(x).__module__.startswith(("matplotlib", "seaborn")):
        return f"mpl:{type(x).__name__}"          # drawing targets legitimately change
    if callable(x):
        return f"callable:{getattr(x, '__qualname__', type(x).__name__)}"
    d = getattr(x, "__dict__", None)
    if isinstance(d, dict) and _FLAGS["object_state"]:
        return f"obj:{type(x).__name__}" + fingerprint({k: v for k, v in d.items() if not k.startswith('_vmon')}, depth + 1)
    return f"obj:{type(x).__name__}"


def fp_args(args, kwargs):
    """Fingerprints for the argument-purity monitor: lists, tuples, sets, arrays, Series, tables, option dictionaries (recursively).
    Other objects handed to a call (metric objects, axes, callables) are identified by type only: their internal state - a lazily
    built scorer, a cache - is not among the things the property says a call leaves untouched."""
    _FLAGS["object_state"] = False
    try:
        return [fingerprint(a) for a in args] + [(k, fingerprint(v)) for k, v in sorted(kwargs.items())]
    finally:
        _FLAGS["object_state"] = True
