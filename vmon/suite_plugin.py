"""pytest plugin: run the repository's own tests with search contracts switched on.

Loaded with `-p vmon.suite_plugin` (PYTHONPATH=/verif:<repo>), i.e. *before* the test modules import
`from pyrepseq.nn import hash_based, kdtree, symdel`, so the names they bind are the contracted ones.
icontract post-conditions (named condition functions, explicit error=) compare every triplet result
with the reference model; conditions record and return True so that the suite itself is not disturbed.
A summary (evaluations per function, violations) is written to $VMON_SUITE_OUT at session end."""
import json
import os

import icontract

from vmon import oracles as O

STATE = {"evaluations": {}, "violations": []}


class PostBroken(Exception):
    pass


def _judge(name, seqs, max_edits, custom_distance, max_custom_distance, output_type, seqs2, max_returns, result):
    STATE["evaluations"][name] = STATE["evaluations"].get(name, 0) + 1
    try:
        if output_type != "triplets" or max_returns is not None:
            return
        seqs_l = [str(s) for s in list(seqs)]
        q = None if seqs2 is None else [str(s) for s in list(seqs2)]
        if custom_distance is None or custom_distance == "hamming":
            mode = "lev" if custom_distance is None else "ham"
            exp = O.neigh_self(seqs_l, max_edits, mode) if q is None else O.neigh_cross(q, seqs_l, max_edits, mode)
        else:
            base = O.neigh_self(seqs_l, max_edits) if q is None else O.neigh_cross(q, seqs_l, max_edits)
            exp = type(base)()
            for (i, j, d) in base:
                a, b = (seqs_l[i], seqs_l[j]) if q is None else (q[i], seqs_l[j])
                v = custom_distance(a, b)
                if v <= max_custom_distance:
                    exp[(i, j, O.num(v))] += 1
        got = O.canon_triplets(result)
        diff = O.diff_triplets(got, exp, self_mode=q is None)
        if diff is not None:
            STATE["violations"].append({"function": name, "mode": str(custom_distance), "diff": repr(diff)[:300],
                                        "seqs": seqs_l[:20], "seqs2": q and q[:20], "max_edits": max_edits})
    except Exception as e:      # a contract must not break the suite
        STATE["violations"].append({"function": name, "contract_error": repr(e)[:300]})


def post_symdel(seqs, result, max_edits=1, max_returns=None, custom_distance=None, max_custom_distance=float("inf"),
                output_type="triplets", seqs2=None):
    _judge("symdel", seqs, max_edits, custom_distance, max_custom_distance, output_type, seqs2, max_returns, result)
    return True


def post_nearest_neighbor(seqs, result, max_edits=1, max_returns=None, custom_distance=None, max_custom_distance=float("inf"),
                          output_type="triplets", seqs2=None):
    _judge("nearest_neighbor", seqs, max_edits, custom_distance, max_custom_distance, output_type, seqs2, max_returns, result)
    return True


def post_hash_based(seqs, result, max_edits=1, max_returns=None, custom_distance=None, max_custom_distance=float("inf"),
                    output_type="triplets"):
    _judge("hash_based", seqs, max_edits, custom_distance, max_custom_distance, output_type, None, max_returns, result)
    return True


def post_kdtree(seqs, result, max_edits=1, max_returns=None, custom_distance=None, max_custom_distance=float("inf"),
                output_type="triplets"):
    _judge("kdtree", seqs, max_edits, custom_distance, max_custom_distance, output_type, None, max_returns, result)
    return True


def _install():
    import pyrepseq
    import pyrepseq.nn as nn
    for name, cond in (("symdel", post_symdel), ("nearest_neighbor", post_nearest_neighbor), ("hash_based", post_hash_based),
                       ("kdtree", post_kdtree)):
        wrapped = icontract.ensure(cond, error=PostBroken)(getattr(nn, name))
        setattr(nn, name, wrapped)
        if hasattr(pyrepseq, name):
            setattr(pyrepseq, name, wrapped)


_install()


def pytest_sessionfinish(session, exitstatus):
    out = os.environ.get("VMON_SUITE_OUT")
    if out:
        with open(out, "w") as f:
            json.dump(STATE, f)
