"""Source-free failpoints: raise an exception at the n-th line event executed inside pyrepseq/*
(sys.monitoring LINE events; nothing in the repository is edited)."""
import os
import sys

from . import core


class InjectedFault(Exception):
    pass


class Failpoint:
    TOOL = 4

    def __init__(self, nth):
        self.nth = nth
        self.count = 0
        self.fired_at = None
        self.active = False

    def __enter__(self):
        mon = sys.monitoring
        try:
            mon.use_tool_id(self.TOOL, "vmon-failpoint")
        except ValueError:
            mon.free_tool_id(self.TOOL)
            mon.use_tool_id(self.TOOL, "vmon-failpoint")
        prefix = os.path.join(core.REPO, "pyrepseq") + os.sep
        owner = os.getpid()

        def on_line(code, line):
            if not code.co_filename.startswith(prefix):
                return mon.DISABLE
            if os.getpid() != owner:
                return None            # a forked pool worker inherited the hook: faults are injected in the calling process only
            if self.fired_at is not None:
                return None
            self.count += 1
            if self.count >= self.nth:
                self.fired_at = f"{os.path.basename(code.co_filename)}:{line}:{code.co_qualname}"
                raise InjectedFault(self.fired_at)
            return None

        mon.register_callback(self.TOOL, mon.events.LINE, on_line)
        mon.restart_events()
        mon.set_events(self.TOOL, mon.events.LINE)
        self.active = True
        return self

    def __exit__(self, *exc):
        mon = sys.monitoring
        mon.set_events(self.TOOL, 0)
        mon.register_callback(self.TOOL, mon.events.LINE, None)
        mon.free_tool_id(self.TOOL)
        self.active = False
        return False
