"""Registry of custom distance callables (symmetric, d(x,x)=0) handed to the search engines.
They are ordinary user-supplied functions; cases refer to them by name so replay files stay JSON."""
import collections

from . import oracles as O


def lev2(a, b):
    return 2 * O.lev(a, b)


def halflev(a, b):
    return 0.5 * O.lev(a, b)


def lev3(a, b):
    return 3 * O.lev(a, b)


def lendiff(a, b):
    return abs(len(a) - len(b))


def compl1(a, b):
    return O.comp_l1(collections.Counter(a), collections.Counter(b))


_W = {c: 1.0 + 0.125 * i for i, c in enumerate("ACDEFGHIKLMNPQRSTVWY")}


def whamming(a, b):
    """real-valued weighted Hamming distance; infinite for unequal lengths"""
    if len(a) != len(b):
        return float("inf")
    return sum(0.5 * (_W.get(x, 1.0) + _W.get(y, 1.0)) for x, y in zip(a, b) if x != y)


def levplus(a, b):
    """edit distance plus a length-sensitive real term"""
    return O.lev(a, b) + 0.25 * abs(len(a) - len(b))


DISTS = {"lev2": lev2, "halflev": halflev, "lev3": lev3, "lendiff": lendiff, "compl1": compl1,
         "whamming": whamming, "levplus": levplus}


def attained_values(name, seqs, seqs2=None):
    f = DISTS[name]
    other = seqs if seqs2 is None else seqs2
    vals = sorted({f(a, b) for a in seqs for b in other})
    return [v for v in vals if v != float("inf")]
