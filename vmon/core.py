"""Runtime-monitoring core: boundary recorder, verdicts, evidence, replay files, sharding.

Every check module in ../checks exposes

    PID      = "C01"
    KINDS    = {kind: callable(ctx, **params)}      # monitors: run the real code, compare with oracle
    generate(tier, seed) -> iterator of (kind, params, must)   # workload; params are JSON data
    REQUIRE  = {counter_name: minimum}              # classes that must have been observed
    RULE, ASSUMPTIONS                               # evidence text

A *case* is (kind, params).  A monitor calls the code under test only through ``ctx.call`` (the
boundary recorder: a call event is opened before invoking, closed with return/raise after) and
reports through ``ctx.violation``.  Verdicts are three-valued: violated (exit 1), held on what was
observed (exit 0), inconclusive (exit 2).
"""
import collections
import hashlib
import json
import os
import sys
import time
import traceback
import warnings

VERIF = os.path.dirname(os.path.dirname(os.path.abspath(__file__)))
REPO = os.path.abspath(os.environ.get("VERIF_REPO", "/repo"))
GUARD = "ANDIM_PYREPSEQ_VERIF"


def setup_paths():
    """Make `import pyrepseq` resolve to the working tree under REPO (pure Python: rebuild = import)."""
    os.environ.setdefault("MPLBACKEND", "Agg")
    os.environ[GUARD] = "1"
    if REPO in sys.path:
        sys.path.remove(REPO)
    sys.path.insert(0, REPO)
    deps = os.path.join(VERIF, ".deps")
    if os.path.isdir(deps) and deps not in sys.path:
        sys.path.append(deps)
    stubs = os.path.join(VERIF, "vmon", "stubs")
    if stubs not in sys.path:
        sys.path.append(stubs)
    with warnings.catch_warnings():
        warnings.simplefilter("ignore")
        import pyrepseq  # noqa
    got = os.path.abspath(pyrepseq.__file__)
    if not got.startswith(REPO + os.sep):
        raise SystemExit(f"INCONCLUSIVE: pyrepseq imported from {got}, not from {REPO}")
    return pyrepseq


# --------------------------------------------------------------------------------------------
# canonical JSON / hashing helpers
# --------------------------------------------------------------------------------------------

def jsonable(x, depth=0):
    """Best-effort conversion of observed values into JSON for witnesses (never raises)."""
    try:
        import numpy as np
        import pandas as pd
    except Exception:  # pragma: no cover
        np = pd = None
    if depth > 6:
        return repr(x)[:200]
    if x is None or isinstance(x, (bool, int, str)):
        return x
    if isinstance(x, float):
        return x if x == x and x not in (float("inf"), float("-inf")) else repr(x)
    if np is not None:
        if isinstance(x, np.generic):
            return jsonable(x.item(), depth + 1)
        if isinstance(x, np.ndarray):
            if x.size > 400:
                return {"ndarray": list(x.shape), "head": jsonable(x.ravel()[:50].tolist(), depth + 1)}
            return jsonable(x.tolist(), depth + 1)
    if pd is not None:
        if isinstance(x, pd.DataFrame):
            return {"DataFrame": {"columns": [str(c) for c in x.columns],
                                  "index": jsonable(list(x.index)[:60], depth + 1),
                                  "rows": jsonable(x.head(60).values.tolist(), depth + 1)}}
        if isinstance(x, pd.Series):
            return {"Series": {"index": jsonable(list(x.index)[:60], depth + 1),
                               "values": jsonable(list(x.values)[:60], depth + 1)}}
    if isinstance(x, dict):
        return {str(k): jsonable(v, depth + 1) for k, v in list(x.items())[:200]}
    if isinstance(x, (list, tuple, set, frozenset, collections.Counter)):
        seq = list(x)
        if isinstance(x, (set, frozenset)):
            try:
                seq = sorted(seq)
            except Exception:
                pass
        out = [jsonable(v, depth + 1) for v in seq[:300]]
        if len(seq) > 300:
            out.append(f"... {len(seq) - 300} more")
        return out
    if isinstance(x, BaseException):
        return f"{type(x).__name__}: {x}"[:400]
    return repr(x)[:300]


def h64(obj):
    s = json.dumps(obj, sort_keys=True, default=repr, separators=(",", ":"))
    return hashlib.blake2b(s.encode("utf8", "surrogatepass"), digest_size=8).hexdigest()


class Outcome:
    __slots__ = ("ok", "value", "exc")

    def __init__(self, ok, value, exc):
        self.ok, self.value, self.exc = ok, value, exc

    def __repr__(self):
        return f"<returned {self.value!r}>" if self.ok else f"<raised {type(self.exc).__name__}: {self.exc}>"

    def describe(self):
        if self.ok:
            return jsonable(self.value)
        tb = traceback.extract_tb(self.exc.__traceback__)
        where = ""
        for fr in reversed(tb):
            if "pyrepseq" in fr.filename:
                where = f" at {os.path.basename(fr.filename)}:{fr.name}"
                break
        return f"raised {type(self.exc).__name__}: {str(self.exc)[:200]}{where}"


class Ctx:
    """Per-process monitoring context: event counters, verdict collection."""

    MAX_VIOLATIONS = 60

    def __init__(self, pid, tier, seed):
        self.pid, self.tier, self.seed = pid, tier, seed
        self.counters = collections.Counter()
        self.calls = collections.Counter()       # boundary events per function
        self.returned = 0
        self.raised = 0
        self.violations = []
        self.nontrivial = set()
        self.samples = {}
        self.evaluations = 0
        self.case = None
        self.open_call = None
        self.seconds = collections.Counter()
        self.distincts = collections.defaultdict(set)
        self.t0 = time.time()

    # ---- boundary recorder -----------------------------------------------------------------
    def call(self, fn, *args, **kwargs):
        """Invoke the real function, recording a call event before and a return/raise event after."""
        name = f"{getattr(fn, '__module__', '?')}.{getattr(fn, '__qualname__', type(fn).__name__)}"
        self.calls[name] += 1
        self.open_call = name
        try:
            with warnings.catch_warnings():
                warnings.simplefilter("ignore")
                value = fn(*args, **kwargs)
        except Exception as exc:  # the code under test raised: that is an observation, not a crash
            self.raised += 1
            self.open_call = None
            return Outcome(False, None, exc)
        self.returned += 1
        self.open_call = None
        return Outcome(True, value, None)

    # ---- verdicts --------------------------------------------------------------------------
    def violation(self, key, message, observed=None, expected=None, extra=None):
        """Record a violated monitor.  `key` names the mechanism (function + argument class +
        failure shape), never random values: it is what known_findings.json is matched on."""
        self.counters["violations_raw"] += 1
        if len(self.violations) >= self.MAX_VIOLATIONS:
            return
        kind, params = self.case if self.case else (None, None)
        self.violations.append({
            "property": self.pid, "key": key, "message": message,
            "observed": jsonable(observed), "expected": jsonable(expected),
            "extra": jsonable(extra), "kind": kind, "params": params,
            "seed": self.seed, "tier": self.tier,
        })

    def count(self, name, n=1):
        self.counters[name] += n

    def nontriv(self, obj):
        """Register a distinct non-trivial case (by canonical hash)."""
        self.nontrivial.add(h64(obj))

    def distinct(self, name, obj):
        """Count distinct observations of a named kind (e.g. index->worker partitions, adjacent call pairs)."""
        self.distincts[name].add(h64(obj))

    def sample(self, label, obj):
        if label not in self.samples:
            self.samples[label] = jsonable(obj)

    # ---- driver ----------------------------------------------------------------------------
    def run_case(self, kinds, kind, params):
        self.case = (kind, params)
        self.evaluations += 1
        self.counters[f"cases:{kind}"] += 1
        t_case = time.time()
        try:
            kinds[kind](self, **params)
        except Exception as exc:
            # A monitor must never crash silently: a harness error is *inconclusive*, never "held".
            self.counters["harness_errors"] += 1
            if "harness_error" not in self.samples:
                self.samples["harness_error"] = {"kind": kind, "params": jsonable(params),
                                                 "trace": traceback.format_exc()[-1500:]}
        finally:
            self.case = None
            self.seconds[kind] += time.time() - t_case

    def dump(self):
        return {
            "counters": dict(self.counters), "calls": dict(self.calls),
            "returned": self.returned, "raised": self.raised,
            "violations": self.violations, "nontrivial": sorted(self.nontrivial),
            "samples": self.samples, "evaluations": self.evaluations, "seconds": dict(self.seconds),
            "distincts": {k: sorted(v) for k, v in self.distincts.items()},
            "wall_s": time.time() - self.t0,
        }


# --------------------------------------------------------------------------------------------
# anchor coverage: which of the property's anchored functions were executed (sys.monitoring)
# --------------------------------------------------------------------------------------------

COVERAGE = None     # the shard's FunctionCoverage (forked children report into it)


_STMT = {}


def _stmt_lines(path):
    """first lines of the statements of a source file (LINE events fire there; continuation lines never do)"""
    if path not in _STMT:
        import ast
        try:
            with open(path) as f:
                tree = ast.parse(f.read())
            _STMT[path] = {n.lineno for n in ast.walk(tree) if isinstance(n, ast.stmt)}
        except Exception:
            _STMT[path] = set(range(1, 100000))
    return _STMT[path]


class FunctionCoverage:
    TOOL = 3

    def __init__(self, anchors=()):
        self.seen = set()
        self.on = False
        self.anchors = tuple(anchors)

    def start(self):
        mon = getattr(sys, "monitoring", None)
        if mon is None:
            return
        try:
            mon.use_tool_id(self.TOOL, "vmon-cov")
        except ValueError:
            return
        prefix = os.path.join(REPO, "pyrepseq") + os.sep
        seen = self.seen

        anchors = self.anchors
        keys = {}

        def on_start(code, offset):
            fn = code.co_filename
            if fn.startswith(prefix):
                mod = fn[len(REPO) + 1:-3].replace(os.sep, ".")
                key = f"{mod}:{code.co_qualname}"
                seen.add(key)
                # line-level reach inside the anchored functions (and the functions nested in them)
                owner = next((a for a in anchors if key == a or key.startswith(a + ".<locals>")), None)
                if owner is not None:
                    keys[code] = owner
                    lines = sorted({ln for _, _, ln in code.co_lines() if ln and ln != code.co_firstlineno} & _stmt_lines(fn))
                    seen.add(f"X|{owner}|" + ",".join(map(str, lines)))
                    try:
                        mon.set_local_events(self.TOOL, code, mon.events.LINE)
                    except Exception:
                        pass
            return mon.DISABLE

        def on_line(code, line):
            owner = keys.get(code)
            if owner is not None:
                seen.add(f"L|{owner}|{line}")
            return mon.DISABLE

        mon.register_callback(self.TOOL, mon.events.PY_START, on_start)
        mon.register_callback(self.TOOL, mon.events.LINE, on_line)
        mon.set_events(self.TOOL, mon.events.PY_START)
        self.on = True

    def stop(self):
        if self.on:
            mon = sys.monitoring
            mon.set_events(self.TOOL, 0)
            mon.register_callback(self.TOOL, mon.events.PY_START, None)
            mon.register_callback(self.TOOL, mon.events.LINE, None)
            mon.free_tool_id(self.TOOL)
            self.on = False


def load_anchors(pid):
    with open(os.path.join(VERIF, "vmon", "anchors.json")) as f:
        return json.load(f).get(pid, [])


def load_known():
    path = os.path.join(VERIF, "known_findings.json")
    if not os.path.exists(path):
        return []
    with open(path) as f:
        return json.load(f).get("findings", [])
