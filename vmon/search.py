"""Shared monitor pieces for the neighbour-search properties (C01 C03 C04 C07 C10 C11 C14)."""
from . import oracles as O


def engine(name):
    import pyrepseq
    import pyrepseq.nn as nn

    def symdeldb_lookup(seqs, max_edits=1, custom_distance=None, max_custom_distance=float("inf"), output_type="triplets", seqs2=None):
        return nn.SymdelDB(seqs, max_edits).lookup(seqs2, custom_distance=custom_distance, max_custom_distance=max_custom_distance,
                                                   output_type=output_type)

    def lookupdb_lookup(seqs, max_edits=1, custom_distance=None, max_custom_distance=float("inf"), output_type="triplets", seqs2=None):
        return nn.LookupDB(seqs).lookup(seqs2, max_edits=max_edits, custom_distance=custom_distance,
                                        max_custom_distance=max_custom_distance, output_type=output_type)
    return {"symdel": nn.symdel, "nearest_neighbor": nn.nearest_neighbor, "hash_based": nn.hash_based, "kdtree": nn.kdtree,
            "SymdelDB.lookup": symdeldb_lookup, "LookupDB.lookup": lookupdb_lookup}[name]


def seq_classes(seqs, k=None):
    """Observable classes of a string collection (used for counters and known-finding keys)."""
    lens = {len(s) for s in seqs}
    cls = set()
    if "" in seqs:
        cls.add("empty-string")
    if len(lens) > 1:
        cls.add("mixed-lengths")
    if len(set(seqs)) < len(seqs):
        cls.add("duplicates")
    if k is not None and any(len(s) < k for s in seqs):
        cls.add("shorter-than-k")
    if len(seqs) == 1:
        cls.add("single")
    if any(c not in "ACDEFGHIKLMNPQRSTVWY" for s in seqs for c in s):
        cls.add("non-amino")
    return cls


def expect_triplets(ctx, out, expected, fn_name, what, extra=None):
    """Monitor: the call returned, and the returned triplets equal the oracle multiset."""
    if not out.ok:
        ctx.violation(f"{fn_name}:{what}:raised:{type(out.exc).__name__}",
                      f"{fn_name} raised instead of returning the neighbour set",
                      observed=out.describe(), expected=sorted(expected.elements())[:20], extra=extra)
        return False
    try:
        got = O.canon_triplets(out.value)
    except Exception as e:
        ctx.violation(f"{fn_name}:{what}:malformed", f"result is not a list of triplets ({e})",
                      observed=out.value, expected=sorted(expected.elements())[:20], extra=extra)
        return False
    ctx.count("triplets_compared", sum(expected.values()))
    d = O.diff_triplets(got, expected, self_mode=('cross' not in what))
    if d is None:
        return True
    shape, detail = d
    ctx.violation(f"{fn_name}:{what}:{shape}",
                  f"{fn_name} result differs from the exact neighbour set ({shape}): {detail}",
                  observed=sorted(got.elements())[:40], expected=sorted(expected.elements())[:40],
                  extra=extra)
    return False


def class_counters(ctx, seqs, k, expected, mode="lev"):
    if not expected:
        ctx.count("inputs_without_neighbours")
    if any(len(seqs[i]) != len(seqs[j]) for (i, j, d) in expected):
        ctx.count("inputs_with_indel_neighbour_pairs")
    if any(d == 0 for (i, j, d) in expected):
        ctx.count("inputs_with_d0_pairs")
    if any(d >= 2 for (i, j, d) in expected):
        ctx.count("inputs_with_d>=2_pairs")
    for c in seq_classes(seqs, k):
        ctx.count("inputs_" + c)
    if k >= 2:
        ctx.count("inputs_k>=2")
