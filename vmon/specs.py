"""Catalogue of call specifications for C20 (purity / history independence).

A specification builds *fresh* arguments on every use and names the function; `canon` turns the result
into JSON so that the value observed inside a long history can be compared with the value the same
specification returns alone in a fresh interpreter.  Randomised specifications carry `np_seed`: NumPy is
reseeded immediately before the call on both sides."""
import collections

from . import dists as D

SEQS = ["CAAA", "CADA", "CAAAD", "CAAA", "CDDD", "CAAK", "CAA", "CASSLGF"]
SEQS2 = ["CAAK", "CAAA", "CDD", "CADAA"]
TCR_ROWS = [["TRAV1-1*01", "CAVRDF", "TRBV9*01", "CASSF"], ["TRAV40*01", "CAVF", "TRBV9*01", "CASSLGF"],
            ["TRAV2*02", "CAAVRF", "TRBV19*01", "CASF"], ["TRAV1-1*01", "CAVRDF", "TRBV9*01", "CASSF"],
            ["TRAV12-2*01", "CAVF", "TRBV6-5*01", "CAWSVGF"]]
GROUPED = [["b", 3, "AA", "x"], ["a", 1, "AB", "y"], ["b", 3, "AA", "x"], ["a", 2, "AC", "y"], ["c", 1, "AA", "z"], ["b", 1, "AB", "x"],
           ["a", 2, "AB", "y"]]


def num(x):
    import numpy as np
    if isinstance(x, (bool, np.bool_)):
        return bool(x)
    if isinstance(x, (int, np.integer)):
        return int(x)
    f = float(x)
    if f != f:
        return "nan"
    if f in (float("inf"), float("-inf")):
        return repr(f)
    return float(f"{f:.10g}")


def canon(v, depth=0):
    """Generic canonicalisation of return values (order-preserving)."""
    import numpy as np
    import pandas as pd
    import scipy.sparse as sp
    if depth > 8:
        return "deep"
    if v is None or isinstance(v, str):
        return v
    if isinstance(v, (bool, int, float, np.generic)) and not isinstance(v, (np.str_,)):
        return num(v)
    if isinstance(v, np.str_):
        return str(v)
    if sp.issparse(v):
        c = v.tocoo()
        return ["sparse", list(c.shape), sorted([int(r), int(cc), num(d)] for r, cc, d in zip(c.row, c.col, c.data))]
    if isinstance(v, np.ndarray):
        return ["nd", list(v.shape), [canon(x, depth + 1) for x in v.ravel().tolist()]]
    if isinstance(v, pd.DataFrame):
        return ["df", [str(c) for c in v.columns], [str(i) for i in v.index], [[canon(x, depth + 1) for x in row] for row in v.values.tolist()]]
    if isinstance(v, pd.Series):
        return ["series", [str(i) for i in v.index], [canon(x, depth + 1) for x in v.tolist()]]
    if isinstance(v, dict):
        return {str(k): canon(x, depth + 1) for k, x in sorted(v.items(), key=lambda kv: str(kv[0]))}
    if isinstance(v, (set, frozenset)):
        return ["set", sorted((canon(x, depth + 1) for x in v), key=repr)]
    if isinstance(v, (list, tuple)):
        return [canon(x, depth + 1) for x in v]
    if hasattr(v, "get_xdata"):
        return ["line", canon(np.asarray(v.get_xdata(), dtype=float)), canon(np.asarray(v.get_ydata(), dtype=float))]
    try:
        if v != v:          # pd.NA etc.
            return "nan"
    except Exception:
        pass
    return f"<{type(v).__name__}>"


def sorted_triplets(v):
    return sorted([int(t[0]), int(t[1]), num(t[2])] for t in v)


def _axes(ax):
    import numpy as np
    out = {"xscale": ax.get_xscale(), "yscale": ax.get_yscale(), "xlabel": ax.get_xlabel(), "ylabel": ax.get_ylabel(),
           "lines": [canon(l) for l in ax.lines], "collections": []}
    for c in ax.collections:
        try:
            off = np.asarray(c.get_offsets(), dtype=float)
            arr = c.get_array()
            out["collections"].append([canon(off), canon(np.asarray(arr, dtype=float)) if arr is not None else None])
        except Exception:
            pass
    return out


def _clustergrid(res):
    import numpy as np
    cg, L, C = res
    cax = cg.ax_cbar
    horizontal = cax.get_position().width > cax.get_position().height
    ticks = cax.get_xticks() if horizontal else cax.get_yticks()
    return {"linkage": canon(np.asarray(L)), "cluster": canon(np.asarray(C)), "data2d": canon(np.asarray(cg.data2d, dtype=float)),
            "order": [int(i) for i in cg.dendrogram_row.reordered_ind], "cbar_ticks": canon(np.asarray(ticks, dtype=float)),
            "cbar_label": cax.get_xlabel() if horizontal else cax.get_ylabel(),
            "xlabel": cg.ax_heatmap.get_xlabel(), "ylabel": cg.ax_heatmap.get_ylabel()}


def _tcr_df(rows=TCR_ROWS, index=None):
    import pandas as pd
    df = pd.DataFrame(rows, columns=["TRAV", "CDR3A", "TRBV", "CDR3B"])
    if index:
        df.index = index
    return df


def _grouped_df():
    import pandas as pd
    return pd.DataFrame(GROUPED, columns=["g1", "g2", "seq", "f"])


def _pair_df(n=7):
    import pandas as pd
    a = ["CAF", "CAAF", "CAW", "CF", "CASF", "CAAAF", "CASSF", "CAWWF"]
    return pd.DataFrame({"cdr3a": [a[i % 8] for i in range(n)], "cdr3b": [a[(i * 3 + 1) % 8] for i in range(n)],
                         "donor": [f"d{i % 3}" for i in range(n)]}, index=[f"c{i}" for i in range(n)])


class Spec:
    def __init__(self, name, func, build, post=canon, np_seed=None, fig=False):
        self.name, self.func, self.build, self.post, self.np_seed, self.fig = name, func, build, post, np_seed, fig

    def target(self):
        """Resolve 'module:attr.path' against the *current* module attributes."""
        import importlib
        mod, path = self.func.split(":")
        obj = importlib.import_module(mod)
        for part in path.split("."):
            obj = getattr(obj, part)
        return obj


SPECS = collections.OrderedDict()


def spec(name, func, post=canon, np_seed=None, fig=False):
    def deco(build):
        SPECS[name] = Spec(name, func, build, post, np_seed, fig)
        return build
    return deco


# ---------------------------------------------------------------- search ------------------
NN = "pyrepseq.nn:"


@spec("symdel_default", NN + "symdel", sorted_triplets)
def _():
    return (list(SEQS),), {}


@spec("symdel_k2", NN + "symdel", sorted_triplets)
def _():
    return (list(SEQS),), {"max_edits": 2}


@spec("symdel_hamming", NN + "symdel", sorted_triplets)
def _():
    return (list(SEQS),), {"custom_distance": "hamming", "max_edits": 2}


@spec("symdel_cross_series", NN + "symdel", sorted_triplets)
def _():
    import pandas as pd
    return (pd.Series(SEQS, index=range(5, 5 + len(SEQS))),), {"seqs2": pd.Series(SEQS2, index=["a", "b", "c", "d"])}


@spec("symdel_cross_unrelated_reference", NN + "symdel", sorted_triplets)
def _():
    # the queries are the sequences of the one-collection specifications, the reference shares almost nothing with them
    return (["CDDD", "CASSLGF", "WWWW"],), {"seqs2": list(SEQS)}


@spec("symdel_cross_unrelated_reference_k2", NN + "symdel", sorted_triplets)
def _():
    return (["CDDD", "CASSLGF", "WWWW"],), {"seqs2": list(SEQS), "max_edits": 2}


@spec("nearest_neighbor_cross_unrelated_reference", NN + "nearest_neighbor", sorted_triplets)
def _():
    return (["CDDD", "WWWW"],), {"seqs2": list(SEQS) + list(SEQS2), "max_edits": 2}


@spec("symdel_custom", NN + "symdel", sorted_triplets)
def _():
    return (list(SEQS),), {"custom_distance": D.lev2, "max_custom_distance": 2.0, "max_edits": 2}


@spec("nearest_neighbor_coo", NN + "nearest_neighbor")
def _():
    import numpy as np
    return (np.array(SEQS),), {"output_type": "coo_matrix", "max_edits": 2}


@spec("nearest_neighbor_ndarray_cross", NN + "nearest_neighbor")
def _():
    return (list(SEQS),), {"output_type": "ndarray", "seqs2": list(SEQS2)}


@spec("hash_based_default", NN + "hash_based", sorted_triplets)
def _():
    return (list(SEQS),), {}


@spec("hash_based_hamming", NN + "hash_based", sorted_triplets)
def _():
    return (tuple(SEQS),), {"custom_distance": "hamming", "max_edits": 2}


@spec("kdtree_default", NN + "kdtree", sorted_triplets)
def _():
    return (list(SEQS),), {"max_edits": 2}


@spec("kdtree_ncpu3", NN + "kdtree", sorted_triplets)
def _():
    return (list(SEQS),), {"n_cpu": 3, "compression": 2}


@spec("kdtree_ncpu3_other_input", NN + "kdtree", sorted_triplets)
def _():
    return ([s[::-1] for s in SEQS] + ["CASSF", "CASSFF", "CAF"],), {"n_cpu": 3, "max_edits": 2}


@spec("kdtree_ncpu2_hamming", NN + "kdtree", sorted_triplets)
def _():
    return (list(SEQS),), {"n_cpu": 2, "custom_distance": "hamming", "max_edits": 2}


@spec("kdtree_ncpu2_small", NN + "kdtree", sorted_triplets)
def _():
    return (list(SEQS)[::-1],), {"n_cpu": 2, "max_edits": 1}


@spec("kdtree_plain_same_input_as_hamming", NN + "kdtree", sorted_triplets)
def _():
    return (list(SEQS),), {}


@spec("kdtree_hamming", NN + "kdtree", sorted_triplets)
def _():
    return (list(SEQS),), {"custom_distance": "hamming"}


@spec("kdtree_custom_maxret", NN + "kdtree", sorted_triplets)
def _():
    return (list(SEQS),), {"custom_distance": D.levplus, "max_returns": 2, "max_edits": 2}


@spec("kdtree_nonamino_raises", NN + "kdtree")
def _():
    return (["CAAA", "CA1A", "CAAK"],), {}


@spec("symdeldb_lookup", NN + "SymdelDB", sorted_triplets)
def _():
    return (list(SEQS), 1), {}, "lookup", (list(SEQS2),), {}


@spec("symdeldb_lookup_custom_ndarray", NN + "SymdelDB")
def _():
    import pandas as pd
    return (pd.Series(SEQS, index=range(3, 3 + len(SEQS))), 2), {}, "lookup", (pd.Series(SEQS2, index=list("wxyz")),), \
        {"custom_distance": D.halflev, "max_custom_distance": 1.0, "output_type": "ndarray"}


@spec("lookupdb_lookup", NN + "LookupDB", sorted_triplets)
def _():
    return (list(SEQS),), {}, "lookup", (list(SEQS2),), {"max_edits": 1}


@spec("lookupdb_lookup_hamming_coo", NN + "LookupDB")
def _():
    import numpy as np
    return (np.array(SEQS),), {}, "lookup", (np.array(SEQS2),), {"max_edits": 2, "custom_distance": "hamming", "output_type": "coo_matrix"}


@spec("search_invalid_empty", NN + "symdel")
def _():
    return ([],), {}


@spec("search_invalid_max_edits", NN + "kdtree")
def _():
    return (list(SEQS),), {"max_edits": 0}


@spec("search_invalid_element", NN + "hash_based")
def _():
    return (["CAAA", 5],), {}


@spec("tcrdist_both", NN + "nearest_neighbor_tcrdist", lambda a: sorted_triplets(__import__("numpy").asarray(a).reshape(-1, 3).tolist()))
def _():
    import pandas as pd
    import os
    from . import core
    va = list(pd.read_csv(os.path.join(core.REPO, "pyrepseq", "data", "vdists_alpha.csv"), index_col=0).index[:3])
    vb = list(pd.read_csv(os.path.join(core.REPO, "pyrepseq", "data", "vdists_beta.csv"), index_col=0).index[:3])
    rows = [["CAVRDSNYQLIW", va[0], "CASSLGQAYEQYF", vb[0]], ["CAVRDSNYQLIW", va[1], "CASSLGRAYEQYF", vb[1]],
            ["CAVKDSNYQLIW", va[2], "CASSLGAYEQYF", vb[0]], ["CAWWWWWWWIW", va[0], "CSARRRRRRRRRRF", vb[2]]]
    df = pd.DataFrame(rows, columns=["CDR3A", "TRAV", "CDR3B", "TRBV"])
    return (df,), {"chain": "both", "max_edits": 2, "max_tcrdist": 200, "tcrdist_kwargs": {"ctrim": 2}}


# ---------------------------------------------------------------- stats -------------------
ST = "pyrepseq.stats:"


@spec("pc_list", ST + "pc")
def _():
    return (["a", "b", "a", "c", "a", "b"],), {}


@spec("pc_ndarray", ST + "pc")
def _():
    import numpy as np
    return (np.array([4, 7, 4, 9, 4, 7, 1, 5]),), {}


@spec("stdpc_ndarray", ST + "stdpc")
def _():
    import numpy as np
    return (np.array(["a", "b", "a", "c", "a", "b", "d", "e"]),), {}


@spec("pc_two", ST + "pc")
def _():
    import numpy as np
    return (np.array([1, 2, 2, 3]), [2, 3, 3]), {}


@spec("pc_table_missing", ST + "pc")
def _():
    import pandas as pd
    return (pd.DataFrame({"x": ["A", "A", None, "A"], "y": ["B", "B", "C", "B"]}),), {}


@spec("pc_legacy_tuple", ST + "pc")
def _():
    return ((["A", "A", "B"], ["C", "C", "D"]),), {}


@spec("pc_joint", ST + "pc_joint")
def _():
    return (_grouped_df(), ["seq", "f"]), {}


@spec("pc_n", ST + "pc_n")
def _():
    return ([3, 2, 1, 1],), {}


@spec("pc_conditional_weighted", ST + "pc_conditional")
def _():
    return (_grouped_df(), ["g1"], "seq"), {"group_weights": [1, 2]}


def _grouped_df_holes():
    """grouping keys and features with missing cells"""
    df = _grouped_df()
    df.loc[1, "g1"] = None
    df.loc[4, "g1"] = None
    df.loc[2, "f"] = None
    return df


@spec("pc_conditional_missing_keys", ST + "pc_conditional")
def _():
    return (_grouped_df_holes(), "g1", ["seq", "f"]), {}


@spec("pc_grouped_cross_missing_keys", ST + "pc_grouped_cross")
def _():
    return (_grouped_df_holes(), "g1", ["seq", "f"]), {}


@spec("pc_joint_missing_cells", ST + "pc_joint")
def _():
    return (_grouped_df_holes(), ["g1", "f"]), {}


@spec("pc_conditional_weights_ndarray", ST + "pc_conditional")
def _():
    import numpy as np
    return (_grouped_df(), "g1", ["seq", "f"]), {"group_weights": np.array([3.0, 1.0])}


@spec("pc_grouped_cross", ST + "pc_grouped_cross")
def _():
    return (_grouped_df(), "g1", ["seq", "f"]), {}


@spec("varpc_n", ST + "varpc_n")
def _():
    import numpy as np
    return (np.array([4, 2, 1, 1]),), {}


@spec("stdpc", ST + "stdpc")
def _():
    return (["a", "b", "a", "c", "a", "b", "d"],), {}


@spec("stdpc_joint", ST + "stdpc_joint")
def _():
    return (_grouped_df(), ["seq", "f"]), {}


@spec("chao1", ST + "chao1")
def _():
    return ([4, 2, 1],), {}


@spec("var_chao1", ST + "var_chao1")
def _():
    import numpy as np
    return (np.array([4, 2, 1]),), {}


@spec("chao2_nan", ST + "chao2")
def _():
    return ([4, 0, 1], 3), {}


@spec("var_chao2", ST + "var_chao2")
def _():
    return ([4, 2], 3), {}


@spec("jaccard_series", ST + "jaccard_index")
def _():
    import pandas as pd
    return (pd.Series(["a", "b", None, "b"]), ["b", "c"]), {}


@spec("overlap_set", ST + "overlap")
def _():
    return ({1, 2, 3}, [2, 3, 3, None]), {}


@spec("overlap_coefficient", ST + "overlap_coefficient")
def _():
    return (["a", "b", "c"], ("b", "z")), {}


@spec("subsample_seeded", ST + "subsample", np_seed=11)
def _():
    return ([5, 0, 3, 8, 1], 7), {}


@spec("subsample_seeded_heavy", ST + "subsample", np_seed=13)
def _():
    return ([9000000, 8000000, 3], 10), {}          # a deep repertoire: more than 2^24 cells in total


@spec("powerlaw_sample_seeded", ST + "powerlaw_sample", np_seed=12)
def _():
    return (), {"size": 20, "xmin": 2, "alpha": 2.5}


@spec("powerlaw_mle_exact", ST + "powerlaw_mle_alpha")
def _():
    return ([1, 1, 2, 1, 5, 3, 1, 1, 9, 2, 1, 40],), {"cmin": 1, "method": "exact"}


@spec("powerlaw_mle_bad_method", ST + "powerlaw_mle_alpha")
def _():
    return ([1, 2, 3],), {"method": "bogus"}


# ---------------------------------------------------------------- distance ----------------
DI = "pyrepseq.distance:"


@spec("pdist_callable", DI + "pdist")
def _():
    return (["a", "bb", "ccc", "dddd"],), {"metric": lambda x, y, bonus=0: len(x) * 10 + len(y) + bonus, "bonus": 3}


@spec("cdist_default", DI + "cdist")
def _():
    return (list(SEQS[:4]), list(SEQS2)), {}


@spec("downsample_seeded", DI + "downsample", lambda v: sorted(str(x) for x in v), np_seed=13)
def _():
    return (list(SEQS), 3), {}


@spec("downsample_table_seeded", DI + "downsample", np_seed=14)
def _():
    return (_tcr_df(), 2), {}


@spec("pcDelta_list", DI + "pcDelta")
def _():
    return (list(SEQS),), {"bins": [0, 1, 2, 3, 9], "pseudocount": 0.5}


@spec("pcDelta_two_counts", DI + "pcDelta")
def _():
    import numpy as np
    return (np.array(SEQS), list(SEQS2)), {"normalize": False}


@spec("pcDelta_table", DI + "pcDelta")
def _():
    return (_tcr_df(),), {"bins": list(range(12))}


@spec("pcDelta_maxseqs_seeded", DI + "pcDelta", np_seed=15)
def _():
    return (list(SEQS), list(SEQS2)), {"maxseqs": 3, "normalize": False, "bins": list(range(8))}


@spec("pcDelta_bins0", DI + "pcDelta")
def _():
    return (list(SEQS),), {"bins": 0}


@spec("pcDelta_grouped", DI + "pcDelta_grouped")
def _():
    return (_grouped_df(), "g1", "seq"), {"bins": [0, 1, 2, 3]}


@spec("pcDelta_grouped_cross_square0", DI + "pcDelta_grouped_cross")
def _():
    return (_grouped_df(), "g1", "seq"), {"bins": 0}


@spec("pcDelta_grouped_cross_condensed", DI + "pcDelta_grouped_cross")
def _():
    return (_grouped_df(), ["g1", "g2"], "seq"), {"bins": [0, 1, 2, 3], "condensed": True}


@spec("load_background", DI + "load_pcDelta_background")
def _():
    return (), {}


@spec("levenshtein_neighbors", DI + "levenshtein_neighbors", lambda it: sorted(it))
def _():
    return ("CAAC",), {"alphabet": "ACD"}


@spec("hamming_neighbors_default", DI + "hamming_neighbors", lambda it: sorted(it))
def _():
    return ("CA",), {}


@spec("next_nearest_neighbors", DI + "next_nearest_neighbors", lambda s: sorted(s))
def _():
    import pyrepseq.distance as d
    return ("AC", lambda y: d.levenshtein_neighbors(y, "AC")), {"maxdistance": 2}


@spec("find_neighbor_pairs", DI + "find_neighbor_pairs", lambda ps: sorted(sorted(p) for p in ps))
def _():
    return (["CAAA", "CADA", "CAAK", "CDDD", "CAAA"],), {}


@spec("find_neighbor_pairs_index", DI + "find_neighbor_pairs_index", lambda ps: sorted(list(p) for p in ps))
def _():
    return (["CAAA", "CADA", "CAAK", "CDDD"],), {}


@spec("calculate_neighbor_numbers", DI + "calculate_neighbor_numbers")
def _():
    return (["CAAA", "CADA", "CAA", "CDDD"],), {}


@spec("isdist1", DI + "isdist1")
def _():
    return ("CAAA", {"CADA", "CDDD"}), {}


@spec("nndist_hamming", DI + "nndist_hamming")
def _():
    return ("CAAA", {"CDDA", "CWWW"}), {"maxdist": 3}


@spec("hierarchical_default", DI + "hierarchical_clustering")
def _():
    return (list(SEQS),), {}


@spec("hierarchical_weighted_unit", DI + "hierarchical_clustering")
def _():
    from pyrepseq.metric import WeightedLevenshtein
    return (list(SEQS),), {"metric": WeightedLevenshtein()}


@spec("hierarchical_weighted_331", DI + "hierarchical_clustering")
def _():
    from pyrepseq.metric import WeightedLevenshtein
    return (list(SEQS),), {"metric": WeightedLevenshtein(insertion_weight=3, deletion_weight=3, substitution_weight=1)}


def _many(n, seed=7):
    import random
    rng = random.Random(seed)
    from . import gens
    return gens.repertoire(rng, n, families=n // 8, lo=3, hi=7)


@spec("hierarchical_default_large", DI + "hierarchical_clustering")
def _():
    return (_many(520),), {}


@spec("pcDelta_large", DI + "pcDelta")
def _():
    return (_many(600, 8),), {}


@spec("symdel_large", NN + "symdel", sorted_triplets)
def _():
    return (_many(1100, 9),), {"max_edits": 2}


@spec("kdtree_large_ncpu2", NN + "kdtree", sorted_triplets)
def _():
    return (_many(700, 10),), {"n_cpu": 2}


@spec("hierarchical_single_sequence_raises", DI + "hierarchical_clustering")
def _():
    return (["CASSF"],), {}


@spec("hierarchical_empty_raises", DI + "hierarchical_clustering")
def _():
    return ([],), {}


@spec("hierarchical_callers_dicts", DI + "hierarchical_clustering")
def _():
    return (list(SEQS),), {"linkage_kws": {"method": "complete", "optimal_ordering": False}, "cluster_kws": {"t": 0, "criterion": "distance"}}


@spec("hierarchical_kws", DI + "hierarchical_clustering")
def _():
    return (_tcr_df(),), {"linkage_kws": {"method": "single"}, "cluster_kws": {"t": 2, "criterion": "maxclust"}}


# ---------------------------------------------------------------- metric ------------------
@spec("levenshtein_cdist", "pyrepseq.metric:Levenshtein")
def _():
    import pandas as pd
    return (), {}, "calc_cdist_matrix", (list(SEQS[:4]), pd.Series(SEQS2, index=[9, 8, 7, 6])), {}


@spec("weighted_levenshtein_pdist", "pyrepseq.metric:WeightedLevenshtein")
def _():
    import numpy as np
    return (), {"insertion_weight": 2, "deletion_weight": 5, "substitution_weight": 3}, "calc_pdist_vector", (np.array(SEQS),), {}


@spec("cdr3_levenshtein", "pyrepseq.metric.tcr_metric:Cdr3Levenshtein")
def _():
    return (), {"alpha_weight": 2, "beta_weight": 3}, "calc_cdist_matrix", (_tcr_df(), _tcr_df(TCR_ROWS[:3])), {}


@spec("cdr_levenshtein_tables", "pyrepseq.metric.tcr_metric:CdrLevenshtein")
def _():
    return (), {"cdr1_weight": 2, "cdr2_weight": 3, "insertion_weight": 2}, "calc_cdist_matrix", (_tcr_df(), _tcr_df(TCR_ROWS[1:4], index=[9, 8, 7])), {}


@spec("alpha_cdr_levenshtein_pdist", "pyrepseq.metric.tcr_metric:AlphaCdrLevenshtein")
def _():
    return (), {}, "calc_pdist_vector", (_tcr_df(index=["q", "r", "s", "t", "u"]),), {}


@spec("beta_cdr_levenshtein_single_chain", "pyrepseq.metric.tcr_metric:BetaCdrLevenshtein")
def _():
    df = _tcr_df()[["TRBV", "CDR3B"]]
    return (), {"cdr2_weight": 4}, "calc_cdist_matrix", (df, df.iloc[:2]), {}


@spec("cdr_levenshtein_allele01", "pyrepseq.metric.tcr_metric:CdrLevenshtein")
def _():
    rows = [["TRAV1-1*01", "CAVRDF", "TRBV19*01", "CASSF"], ["TRAV2*01", "CAVF", "TRBV7-7*01", "CASSLGF"], ["TRAV12-2*01", "CAAF", "TRBV9*01", "CASF"]]
    return (), {}, "calc_cdist_matrix", (_tcr_df(rows), _tcr_df(rows[:2])), {}


@spec("cdr_levenshtein_allele02", "pyrepseq.metric.tcr_metric:CdrLevenshtein")
def _():
    rows = [["TRAV1-1*02", "CAVRDF", "TRBV19*02", "CASSF"], ["TRAV2*02", "CAVF", "TRBV7-7*02", "CASSLGF"], ["TRAV12-2*02", "CAAF", "TRBV9*02", "CASF"]]
    return (), {}, "calc_cdist_matrix", (_tcr_df(rows), _tcr_df(rows[:2])), {}


@spec("tcr_metric_rejects_list", "pyrepseq.metric.tcr_metric:BetaCdr3Levenshtein")
def _():
    return (), {}, "calc_pdist_vector", (["CASSF", "CASF"],), {}


# ---------------------------------------------------------------- clustering / entropy ----
@spec("graph_cc", "pyrepseq.clustering:graph_clustering")
def _():
    return ([(0, 1, 1), (1, 0, 1), (2, 3, 0), (3, 2, 0)], ["a", "b", "c", "d", "e"]), {}


@spec("graph_fastgreedy", "pyrepseq.clustering:graph_clustering")
def _():
    import pandas as pd
    return ([(0, 1, 1), (1, 0, 1), (2, 3, 0), (3, 2, 0), (1, 2, 1), (2, 1, 1)], pd.Series(["a", "b", "c", "d", "e"], index=[5, 6, 7, 8, 9])), {"clustering": "fastgreedy"}


@spec("graph_empty", "pyrepseq.clustering:graph_clustering")
def _():
    return ([], ["a", "b"]), {}


@spec("renyi2", "pyrepseq.entropy:renyi2_entropy")
def _():
    return (_grouped_df(), "seq"), {"base": 10.0}


@spec("renyi2_conditional", "pyrepseq.entropy:renyi2_entropy")
def _():
    return (_grouped_df(), ["seq", "f"]), {"by": "g1"}


@spec("stdrenyi2", "pyrepseq.entropy:stdrenyi2_entropy")
def _():
    return (_grouped_df(), "seq"), {}


# ---------------------------------------------------------------- io / util ---------------
IO = "pyrepseq.io:"


@spec("isvalidaa", IO + "isvalidaa")
def _():
    return ("CASSF1",), {}


@spec("isvalidcdr3_empty", IO + "isvalidcdr3")
def _():
    return ("",), {}


@spec("isvalidcdr3_nan", IO + "isvalidcdr3")
def _():
    return (float("nan"),), {}


def _std_df():
    import pandas as pd
    return pd.DataFrame([["av26.1*1", "CIVRAPGRADMRF", "bv13*1", "CASSYLPGQGDHYSNQPQHF", "FLKEKGGL", "b8", 1],
                         ["unknown", "ASSF", "TRBV1*01", None, "not an epitope!", None, 2]],
                        columns=["TRAV", "CDR3A", "TRBV", "CDR3B", "Epitope", "MHCA", "count"], index=["p", "q"])


@spec("standardize_default", IO + "standardize_dataframe")
def _():
    return (_std_df(),), {"suppress_warnings": True}


@spec("standardize_options", IO + "standardize_dataframe")
def _():
    return (_std_df(),), {"suppress_warnings": True, "tcr_precision": "allele", "tcr_enforce_functional": False, "mhc_precision": "protein",
                          "strict_cdr3_standardization": True}


@spec("standardize_only_nonfunctional", IO + "standardize_dataframe")
def _():
    return (_std_df(),), {"suppress_warnings": True, "tcr_enforce_functional": False}


@spec("standardize_only_allele", IO + "standardize_dataframe")
def _():
    return (_std_df(),), {"suppress_warnings": True, "tcr_precision": "allele"}


@spec("standardize_only_strict", IO + "standardize_dataframe")
def _():
    return (_std_df(),), {"suppress_warnings": True, "strict_cdr3_standardization": True}


@spec("standardize_only_mouse", IO + "standardize_dataframe")
def _():
    return (_std_df(),), {"suppress_warnings": True, "species": "MusMusculus"}


@spec("standardize_only_mhc_protein", IO + "standardize_dataframe")
def _():
    return (_std_df(),), {"suppress_warnings": True, "mhc_precision": "protein"}


@spec("standardize_mapper_false", IO + "standardize_dataframe")
def _():
    return (_std_df().rename(columns={"TRBV": "foo"}),), {"standardize": False, "col_mapper": {"foo": "TRBV"}}


@spec("standardize_missing_df", IO + "standardize_dataframe")
def _():
    return (), {}


def _mm():
    import pandas as pd
    return [pd.DataFrame({"k": ["k1", "k2"], "x": [1, 2]}), pd.DataFrame({"k": ["k2", "k3"], "y": [3, 4]}), pd.DataFrame({"k": ["k1", "k3"], "z": ["a", "b"]})]


@spec("multimerge_named", IO + "multimerge")
def _():
    return (_mm(), "k"), {}


@spec("multimerge_suffix_inner", IO + "multimerge")
def _():
    return (_mm(), "k"), {"suffixes": ["s1", "s2", "s3"], "how": "inner"}


@spec("seqs_to_regex", "pyrepseq.util:seqs_to_regex")
def _():
    return (["CASSF", "CAWSF", "CA-SY"],), {"align": False}


@spec("seqs_to_consensus", "pyrepseq.util:seqs_to_consensus")
def _():
    return (["CASSF", "CAWSF", "CATSY", "CAWTY"],), {"align": False}


# ---------------------------------------------------------------- plotting ----------------
PL = "pyrepseq.plotting:"


def _new_ax():
    import matplotlib.pyplot as plt
    fig, ax = plt.subplots()
    return ax


@spec("rankfrequency", PL + "rankfrequency", lambda lines: {"lines": [canon(l) for l in lines], "axes": _axes(lines[0].axes)}, fig=True)
def _():
    import numpy as np
    return (np.array([5, 1, 3, 3, np.nan, 10, 1.0]),), {"ax": _new_ax(), "normalize_y": True, "scalex": 2.0}


@spec("rankfrequency_unsorted_no_nan", PL + "rankfrequency", lambda lines: {"lines": [canon(l) for l in lines]}, fig=True)
def _():
    import numpy as np
    return (np.array([5.0, 1.0, 3.0, 3.0, 10.0, 1.0]),), {"ax": _new_ax(), "normalize_x": False}


@spec("rankfrequency_series", PL + "rankfrequency", lambda lines: {"lines": [canon(l) for l in lines]}, fig=True)
def _():
    import pandas as pd
    return (pd.Series([7, 2, 9, 2, 4], index=list("vwxyz")),), {"ax": _new_ax(), "normalize_x": False, "log_x": False}


@spec("labels_hls_seeded", PL + "labels_to_colors_hls", np_seed=21)
def _():
    return (["a", "b", "a", "c", "d", "a", "b"],), {"min_count": 2}


@spec("labels_tableau_seeded", PL + "labels_to_colors_tableau", np_seed=22)
def _():
    return ([3, 1, 3, 2, 2, 3],), {}


@spec("seqlogos", PL + "seqlogos", lambda r: canon(r[1]), fig=True)
def _():
    return (["CASSF", "CAWSF", "CATSY"],), {"ax": _new_ax()}


@spec("density_scatter_discrete", PL + "density_scatter", _axes, fig=True)
def _():
    return ([1, 2, 2, 3, 1, 2], [1, 1, 1, 0, 1, 1]), {"ax": _new_ax(), "discrete": True}


@spec("clustermap_default_seeded", PL + "similarity_clustermap", _clustergrid, np_seed=23, fig=True)
def _():
    return (_pair_df(),), {}


@spec("clustermap_norm_seeded", PL + "similarity_clustermap", _clustergrid, np_seed=24, fig=True)
def _():
    import matplotlib as mpl
    return (_pair_df(),), {"norm": mpl.colors.Normalize(0, 8)}


@spec("clustermap_single_meta_seeded", PL + "similarity_clustermap", _clustergrid, np_seed=25, fig=True)
def _():
    return (_pair_df(6),), {"alpha_column": None, "meta_columns": ["donor"], "cluster_kws": {"t": 2, "criterion": "distance"}}


@spec("clustermap_short_mapper_list_seeded", PL + "similarity_clustermap", _clustergrid, np_seed=27, fig=True)
def _():
    import pyrepseq.plotting as pp
    df = _pair_df(6)
    df["epi"] = ["e1", "e2", "e1", "e1", "e2", "e3"]
    # the caller's list of colour mappers is shorter than clusters + metadata columns
    return (df,), {"meta_columns": ["donor", "epi"], "meta_to_colors": [pp.labels_to_colors_hls, pp.labels_to_colors_tableau]}


@spec("clustermap_mapper_list_and_dict_seeded", PL + "similarity_clustermap", _clustergrid, np_seed=28, fig=True)
def _():
    import pyrepseq.plotting as pp
    df = _pair_df(6)
    return (df,), {"meta_columns": {"donor": "Donor"}, "meta_to_colors": [pp.labels_to_colors_hls, pp.labels_to_colors_hls], "cluster_kws": {"t": 3, "criterion": "distance"}}


@spec("clustermap_callers_dicts_seeded", PL + "similarity_clustermap", _clustergrid, np_seed=26, fig=True)
def _():
    return (_pair_df(),), {"cbar_kws": {"label": "d", "orientation": "horizontal"}, "linkage_kws": {"method": "complete"}}


