#!/bin/bash
# usage: [SRC=/tmp/wt] [TAG=] tools/seedall.sh C03 [C06 ...]  -- test every patchN.diff of each agent output dir; keep confirmed ones under seeded/<Cxx>-<TAG>N
SRC=${SRC:-/tmp/wt}
for P in "$@"; do for i in 1 2 3 4; do
 O=$SRC/$P.out
 [ -f $O/patch$i.diff ] || continue
 /venv/bin/python /verif/tools/seedtest.py $P $O/patch$i.diff $O/demo$i.py --note $O/note$i.txt --keep $P-${TAG:-}$i ${EXTRA:-} | python3 -c "
import json,sys; r=json.load(sys.stdin)
print('$P-${TAG:-}$i', 'confirmed=%s'%r.get('confirmed'), '|', r.get('pinned_tests_with_patch'), '| demo clean:', r.get('demo_on_unchanged'), '| demo mut:', r.get('demo_with_patch'))
for c,v in r.get('checks',{}).items(): print('   ', c, v['verdict'], (v['lines'][0] if v['lines'] else '')[:200])"
done; done
