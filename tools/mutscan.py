#!/usr/bin/env python3
"""Run the checks against the first-order mutants written by tools/mutate.py.

usage: tools/mutscan.py <mutants_dir> <results.jsonl> [--jobs N] [--only module] [--resume]

For each mutant: scratch copy of /repo (outside /repo and /verif, removed afterwards) with the normalised, mutated module;
the checks mapped to that module are run (quick tier, VERIF_REPO=<copy>) until one reports a VIOLATION; if none does,
the pinned test-suite decides whether the mutant is in scope at all (a mutant the suite already kills is not).
Result per mutant: killed_by=<Cxx> | killed_by_tests | SURVIVED | broken(import fails)."""
import argparse
import json
import os
import shutil
import subprocess
import sys
import tempfile
from concurrent.futures import ThreadPoolExecutor

VERIF = os.path.dirname(os.path.dirname(os.path.abspath(__file__)))
PY = "/venv/bin/python"
MAP = {
    "pyrepseq.nn": ["C01", "C03", "C04", "C07", "C10", "C14", "C11", "C15", "C20"],
    "pyrepseq.stats": ["C02", "C06", "C16", "C13", "C17", "C05", "C20"],
    "pyrepseq.distance": ["C05", "C12", "C08", "C13", "C15", "C17", "C04", "C07", "C20"],
    "pyrepseq.entropy": ["C13", "C20"],
    "pyrepseq.clustering": ["C15", "C20"],
    "pyrepseq.io": ["C18", "C04", "C20"],
    "pyrepseq.util": ["C19", "C02", "C05", "C10", "C15", "C20"],
    "pyrepseq.plotting": ["C19", "C20"],
    "pyrepseq.metric.levenshtein": ["C08", "C05", "C15", "C19", "C20"],
    "pyrepseq.metric.tcr_metric.tcr_levenshtein": ["C09", "C05", "C15", "C20"],
    "pyrepseq.metric.tcr_metric.tcr_metric": ["C09", "C20"],
}


FUNC_MAP = {
    # nn.py
    "_histogram_encode": ["C04", "C11", "C07", "C14"], "_cal_levenshtein": ["C04", "C11", "C07"], "_cal_custom_dist": ["C14", "C11"],
    "_to_triplets": ["C11", "C04", "C14"], "_to_len_bucket": ["C07", "C10"], "kdtree": ["C04", "C07", "C11", "C10", "C14"],
    "_kdtree_leven": ["C04", "C11", "C14", "C07"], "_generate_neighbors": ["C04", "C03", "C07", "C14"],
    "hash_based": ["C04", "C07", "C10", "C14"], "_comb_gen": ["C01", "C03", "C07"],
    "_hamming_replacement": ["C07"], "symdel": ["C01", "C03", "C14", "C07", "C10"], "nearest_neighbor": ["C01", "C03", "C10", "C14"],
    "_lookup": ["C14"], "nearest_neighbor_tcrdist": ["C14", "C20"], "_flatten_array": ["C04", "C11"],
    "_check_common_input": ["C10", "C01", "C14"], "_make_output": ["C10", "C03"],
    # stats.py
    "powerlaw_sample": ["C17"], "subsample": ["C17"], "_discrete_loglikelihood": ["C17"], "powerlaw_mle_alpha": ["C17"],
    "pc_n": ["C02", "C06"], "pc": ["C02", "C06", "C05"], "pc_joint": ["C02", "C13"], "pc_grouped_cross": ["C13"], "pc_conditional": ["C13"],
    "varpc_n": ["C06"], "stdpc_n": ["C06"], "stdpc": ["C06", "C13"], "stdpc_joint": ["C06", "C13"], "chao1": ["C16"], "var_chao1": ["C16"],
    "chao2": ["C16"], "var_chao2": ["C16"], "jaccard_index": ["C16"], "overlap": ["C16"], "overlap_coefficient": ["C16"],
    # distance.py
    "pdist": ["C08"], "cdist": ["C08"], "downsample": ["C17", "C05"], "pcDelta": ["C05", "C13"], "get_default_metric_for_input_data": ["C05", "C15"],
    "pcDelta_grouped": ["C13"], "pcDelta_grouped_cross": ["C13"], "load_pcDelta_background": ["C05"],
    "levenshtein_neighbors": ["C12", "C04"], "hamming_neighbors": ["C12", "C07"], "_flatten_list": ["C12"], "next_nearest_neighbors": ["C12"],
    "find_neighbor_pairs": ["C12"], "find_neighbor_pairs_index": ["C12"], "calculate_neighbor_numbers": ["C12"], "isdist1": ["C12"],
    "_isdist2_hamming": ["C12"], "_isdist3_hamming": ["C12"], "nndist_hamming": ["C12"], "hierarchical_clustering": ["C15", "C20"],
}


def checks_for(rec):
    f = FUNC_MAP.get(rec.get("func")) if rec["module"] in ("pyrepseq.nn", "pyrepseq.stats", "pyrepseq.distance") else None
    base = MAP[rec["module"]]
    if f:
        return f + (["C20"] if "C20" not in f else [])
    return base


def one(rec, mdir):
    mod, n = rec["module"], rec["n"]
    tmp = tempfile.mkdtemp(prefix="mutscan.", dir="/tmp")
    res = dict(rec)
    try:
        subprocess.run(["rsync", "-a", "--exclude", ".git", "/repo/", tmp + "/"], check=True)
        shutil.copy(os.path.join(mdir, mod, f"{n}.py"), os.path.join(tmp, rec["file"]))
        env = dict(os.environ, VERIF_REPO=tmp, PYTHONPATH=tmp)
        r = subprocess.run([PY, "-W", "ignore", "-c", "import pyrepseq"], env=env, capture_output=True, text=True, timeout=300)
        if r.returncode != 0:
            res["result"] = "broken"
            return res
        res["checks_run"] = []
        for c in checks_for(rec):
            work = os.path.join(tmp, "_verifwork")
            r = subprocess.run([PY, os.path.join(VERIF, "run.py"), c, "--tier", "quick", "--shards", "4"], cwd=VERIF, env=env,
                               capture_output=True, text=True, timeout=3600)
            res["checks_run"].append([c, r.returncode])
            if r.returncode == 1:
                res["result"] = f"killed_by={c}"
                keys = [l.strip()[:160] for l in r.stdout.splitlines() if l.strip().startswith("witness")]
                res["witness"] = keys[:2]
                return res
        r = subprocess.run([PY, os.path.join(VERIF, "tools", "baseline.py"), tmp], capture_output=True, text=True, timeout=1800)
        res["result"] = "SURVIVED" if r.returncode == 0 else "killed_by_tests"
        return res
    except Exception as e:
        res["result"] = f"error: {e!r}"[:200]
        return res
    finally:
        shutil.rmtree(tmp, ignore_errors=True)


def main():
    ap = argparse.ArgumentParser()
    ap.add_argument("mdir")
    ap.add_argument("out")
    ap.add_argument("--jobs", type=int, default=3)
    ap.add_argument("--only")
    ap.add_argument("--resume", action="store_true")
    a = ap.parse_args()
    recs = [json.loads(l) for l in open(os.path.join(a.mdir, "index.jsonl"))]
    if a.only:
        recs = [r for r in recs if r["module"] in a.only.split(",")]
    done = set()
    if a.resume and os.path.exists(a.out):
        for l in open(a.out):
            d = json.loads(l)
            done.add((d["module"], d["n"]))
    recs = [r for r in recs if (r["module"], r["n"]) not in done]
    print(len(recs), "mutants to run", flush=True)
    with open(a.out, "a") as f, ThreadPoolExecutor(a.jobs) as ex:
        for res in ex.map(lambda r: one(r, a.mdir), recs):
            f.write(json.dumps(res) + "\n")
            f.flush()
            print(res["module"], res["n"], res["result"], res.get("desc"), flush=True)


if __name__ == "__main__":
    main()
