#!/bin/bash
# Apply every behaviour-preserving refactor under benign/ to a scratch copy and run all checks: every one must be HELD.
cd "$(dirname "$0")/.."
fail=0
for d in benign/*/; do
  S=$(mktemp -d /tmp/benign.XXXXXX); rsync -a --exclude .git /repo/ "$S/"
  ( cd "$S" && patch -p1 -s < "$OLDPWD/$d/patch.diff" ) || { echo "$d PATCH FAILED"; rm -rf "$S"; fail=1; continue; }
  /venv/bin/python tools/baseline.py "$S" | head -1
  for c in C01 C02 C03 C04 C05 C06 C07 C08 C09 C10 C11 C12 C13 C14 C15 C16 C17 C18 C19 C20; do
    out=$(VERIF_REPO="$S" /venv/bin/python run.py $c --tier ${1:-quick} 2>&1); rc=$?
    if [ $rc -ne 0 ]; then echo "$d $c exit=$rc"; echo "$out" | grep -E "witness|VIOLATION|INCONCLUSIVE" | head -3 | cut -c1-250; fail=1; else echo "$d $c held"; fi
  done
  rm -rf "$S"
done
exit $fail
