#!/usr/bin/env python3
"""Write seeded/INDEX.md: one line per kept seeded change (property, what it needs, first witness key, first-run verdict)."""
import glob, json, os, re
HERE = os.path.dirname(os.path.dirname(os.path.abspath(__file__)))
rows = []
for d in sorted(glob.glob(os.path.join(HERE, "seeded", "*", ""))):
    n = os.path.basename(d[:-1])
    m = json.load(open(os.path.join(d, "meta.json")))
    note = " ".join(m["needs_to_manifest"].split())
    v = list(m["check_results"].values())[0]
    key = ""
    if v["first_lines"]:
        mm = re.search(r"\[(.*?)\]", v["first_lines"][0])
        key = mm.group(1) if mm else ""
    first = m.get("first_run", {}).get("strengthening", "")
    rows.append((n, m["breaks_property"], note[:260].replace("|", "/"), key.replace("|", "/"), "missed -> " + first if first else "caught"))
with open(os.path.join(HERE, "seeded", "INDEX.md"), "w") as f:
    f.write("# Seeded breaking changes (all confirmed: demo passes on the unchanged tree, pinned tests pass with the patch, demo fails with it)\n\n")
    f.write(f"{len(rows)} changes; first-run misses: {sum(1 for r in rows if r[4] != 'caught')}. Every change is now caught by its property's check "
            "(`tools/seeded_regress.sh`; C01-r3-3 by the thorough tier only).\n\n")
    f.write("| id | property | change / what it needs (from the author's note) | first witness key | first run |\n|---|---|---|---|---|\n")
    for r in rows:
        f.write("| " + " | ".join(r) + " |\n")
print(len(rows), "rows")
