#!/bin/bash
# Re-run every kept seeded change against its property's check (quick tier by default): all must be CAUGHT.
# usage: tools/seeded_regress.sh [tier] [Cxx ...]   (optional list restricts the run to those properties)
cd "$(dirname "$0")/.."
fail=0
TIER=${1:-quick}; shift
ONLY=" $* "
for d in seeded/*/; do n=$(basename $d); P=${n%%-*}
  if [ "$ONLY" != "  " ] && [[ "$ONLY" != *" $P "* ]]; then continue; fi
  Q=$(python3 -c "
import json; e=json.load(open('seeded/EXPECTED.json')); print(e.get('caught_by_other_check',{}).get('$n',{}).get('check','$P'))")
  r=$(/venv/bin/python tools/seedtest.py $P $d/patch.diff $d/demo.py --tier $TIER --seed ${SEED:-0} $([ "$Q" != "$P" ] && echo --also $Q) | python3 -c "
import json,sys; r=json.load(sys.stdin); v=r['checks']['$Q']; print(r.get('confirmed'), v['verdict'], (v['lines'][0] if v['lines'] else '')[:150])")
  exp=$(python3 -c "
import json; e=json.load(open('seeded/EXPECTED.json')); n='$n'
print('thorough-only' if (n in e['thorough_only'] and '$TIER'=='quick') else 'out-of-reach' if n in e['out_of_reach'] else '')")
  echo "$n $r ${exp:+[expected: $exp]}"; case "$r" in *CAUGHT*) ;; *) [ -n "$exp" ] || fail=1;; esac
done
exit $fail
