#!/bin/bash
# Re-run every kept seeded change against its property's check (quick tier by default): all must be CAUGHT.
# usage: tools/seeded_regress.sh [tier] [Cxx ...]   (optional list restricts the run to those properties)
cd "$(dirname "$0")/.."
fail=0
TIER=${1:-quick}; shift
ONLY=" $* "
for d in seeded/*/; do n=$(basename $d); P=${n%%-*}
  if [ "$ONLY" != "  " ] && [[ "$ONLY" != *" $P "* ]]; then continue; fi
  r=$(/venv/bin/python tools/seedtest.py $P $d/patch.diff $d/demo.py --tier $TIER --seed ${SEED:-0} | python3 -c "
import json,sys; r=json.load(sys.stdin); v=r['checks']['$P']; print(r.get('confirmed'), v['verdict'], (v['lines'][0] if v['lines'] else '')[:150])")
  echo "$n $r"; case "$r" in *CAUGHT*) ;; *) fail=1;; esac
done
exit $fail
