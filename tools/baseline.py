#!/usr/bin/env python3
"""Run the repository's pinned test suite (guard OFF) in REPO and compare with BASELINE.json."""
import json, os, subprocess, sys, tempfile, xml.etree.ElementTree as ET
repo = sys.argv[1] if len(sys.argv) > 1 else "/repo"
base = json.load(open("/root/.vp/BASELINE.json"))
want = set(base["stable_pass"])
fd, xml = tempfile.mkstemp(suffix=".xml"); os.close(fd)
env = dict(os.environ); env.pop("ANDIM_PYREPSEQ_VERIF", None); env["PYTHONPATH"] = repo
subprocess.run(["/venv/bin/python", "-m", "pytest", "-q", "-p", "no:cacheprovider", "--timeout=900",
                "--continue-on-collection-errors", f"--junitxml={xml}"], cwd=repo, env=env,
               stdout=subprocess.DEVNULL, stderr=subprocess.DEVNULL)
passed = set()
for tc in ET.parse(xml).getroot().iter("testcase"):
    if not any(ch.tag in ("failure", "error", "skipped") for ch in tc):
        passed.add(f"{tc.get('classname')}::{tc.get('name')}")
os.remove(xml)
missing = sorted(want - passed)
print(f"baseline: {len(want & passed)}/{len(want)} stable tests pass; extra passing: {len(passed - want)}")
for m in missing: print("  NOT PASSING:", m)
sys.exit(1 if missing else 0)
