#!/bin/bash
# usage: tools/sweep.sh <tier> <seed>...   -- every check at every seed; prints one line per run (silence = HELD)
cd "$(dirname "$0")/.."
TIER=$1; shift
for s in "$@"; do for c in C01 C02 C03 C04 C05 C06 C07 C08 C09 C10 C11 C12 C13 C14 C15 C16 C17 C18 C19 C20; do
  out=$(VERIF_SEED=$s /venv/bin/python run.py $c --tier $TIER 2>&1); rc=$?
  if [ $rc -ne 0 ]; then echo "== $c seed=$s tier=$TIER exit=$rc"; echo "$out" | grep -E "VIOLATION|INCONCLUSIVE|witness|observed:|expected:" | cut -c1-600 | head -12; else echo "ok $c seed=$s $(echo "$out" | grep -o 'wall=[0-9.]*s')"; fi
done; done
