#!/usr/bin/env python3
"""Systematic first-order mutants of the pyrepseq sources (validation of the monitors, not a check).

usage: tools/mutate.py <outdir>      writes <outdir>/<module>/<n>.diff (+ index.jsonl)

Operators: comparison / arithmetic / boolean operator replacement, integer and boolean constant tweaks,
`continue`/`break` -> pass, removal of `not`, slice-bound tweaks, keyword-argument boolean flips.
Only code inside functions reachable from the 20 properties is mutated (docstrings, the tcrdist sub-package,
mafft alignment, and plotting helpers outside the properties are skipped)."""
import ast
import copy
import difflib
import json
import os
import sys

REPO = os.environ.get("VERIF_REPO", "/repo")
FILES = ["pyrepseq/nn.py", "pyrepseq/stats.py", "pyrepseq/distance.py", "pyrepseq/entropy.py", "pyrepseq/clustering.py", "pyrepseq/io.py",
         "pyrepseq/util.py", "pyrepseq/plotting.py", "pyrepseq/metric/levenshtein.py", "pyrepseq/metric/tcr_metric/tcr_levenshtein.py",
         "pyrepseq/metric/tcr_metric/tcr_metric.py"]
SKIP_FUNCS = {"align_seqs", "label_axes", "seqlogos_vj", "create_artists", "HandlerTupleOffset", "clustermap_split"}
CMP = {ast.Lt: [ast.LtE, ast.Gt], ast.LtE: [ast.Lt, ast.GtE], ast.Gt: [ast.GtE, ast.Lt], ast.GtE: [ast.Gt, ast.LtE],
       ast.Eq: [ast.NotEq], ast.NotEq: [ast.Eq], ast.Is: [ast.IsNot], ast.IsNot: [ast.Is], ast.In: [ast.NotIn], ast.NotIn: [ast.In]}
BIN = {ast.Add: [ast.Sub], ast.Sub: [ast.Add], ast.Mult: [ast.Div, ast.Add], ast.Div: [ast.Mult, ast.FloorDiv], ast.FloorDiv: [ast.Div],
       ast.Pow: [ast.Mult], ast.Mod: [ast.FloorDiv]}


class Site:
    def __init__(self, kind, lineno, col, variant, desc):
        self.kind, self.lineno, self.col, self.variant, self.desc = kind, lineno, col, variant, desc


def sites(tree):
    out = []
    ids = {id(n): k for k, n in enumerate(ast.walk(tree))}

    def visit(node, in_func):
        if isinstance(node, (ast.FunctionDef, ast.AsyncFunctionDef, ast.ClassDef)):
            if node.name in SKIP_FUNCS:
                return
            in_func = in_func or isinstance(node, ast.FunctionDef)
        if in_func:
            if isinstance(node, ast.Compare):
                for i, op in enumerate(node.ops):
                    for v, new in enumerate(CMP.get(type(op), [])):
                        out.append(Site("cmp", node.lineno, node.col_offset, (i, v), f"{type(op).__name__}->{new.__name__}"))
            elif isinstance(node, ast.BinOp):
                for v, new in enumerate(BIN.get(type(node.op), [])):
                    out.append(Site("bin", node.lineno, node.col_offset, v, f"{type(node.op).__name__}->{new.__name__}"))
            elif isinstance(node, ast.BoolOp):
                out.append(Site("bool", node.lineno, node.col_offset, 0, f"{type(node.op).__name__} swapped"))
            elif isinstance(node, ast.UnaryOp) and isinstance(node.op, ast.Not):
                out.append(Site("not", node.lineno, node.col_offset, 0, "not removed"))
            elif isinstance(node, ast.Constant) and not isinstance(node.value, str) and node.value is not None and node.value is not Ellipsis:
                if isinstance(node.value, bool):
                    out.append(Site("const", node.lineno, node.col_offset, 0, f"{node.value}->{not node.value}"))
                elif isinstance(node.value, int) and abs(node.value) < 100:
                    out.append(Site("const", node.lineno, node.col_offset, 1, f"{node.value}->{node.value + 1}"))
                    out.append(Site("const", node.lineno, node.col_offset, -1, f"{node.value}->{node.value - 1}"))
                elif isinstance(node.value, float) and node.value not in (float("inf"),):
                    out.append(Site("const", node.lineno, node.col_offset, 2, f"{node.value}->{node.value * 2 + 1}"))
            elif isinstance(node, (ast.Continue, ast.Break)):
                out.append(Site("flow", node.lineno, node.col_offset, 0, f"{type(node).__name__}->pass"))
        for st in out:
            if not hasattr(st, "nid"):
                st.nid = ids[id(node)]
        for ch in ast.iter_child_nodes(node):
            # never descend into docstrings / annotations
            if isinstance(ch, ast.Expr) and isinstance(getattr(ch, "value", None), ast.Constant) and isinstance(ch.value.value, str):
                continue
            visit(ch, in_func)
    visit(tree, False)
    return out


def apply(tree, site):
    t = copy.deepcopy(tree)
    for k, node in enumerate(ast.walk(t)):
        if k != site.nid:
            continue
        if site.kind == "cmp" and isinstance(node, ast.Compare):
            i, v = site.variant
            node.ops[i] = CMP[type(node.ops[i])][v]()
            return t
        if site.kind == "bin" and isinstance(node, ast.BinOp) and type(node.op) in BIN:
            node.op = BIN[type(node.op)][site.variant]()
            return t
        if site.kind == "bool" and isinstance(node, ast.BoolOp):
            node.op = ast.Or() if isinstance(node.op, ast.And) else ast.And()
            return t
        if site.kind == "not" and isinstance(node, ast.UnaryOp) and isinstance(node.op, ast.Not):
            # replace by its operand: find parent
            for parent in ast.walk(t):
                for field, val in ast.iter_fields(parent):
                    if val is node:
                        setattr(parent, field, node.operand)
                        return t
                    if isinstance(val, list) and node in val:
                        val[val.index(node)] = node.operand
                        return t
        if site.kind == "const" and isinstance(node, ast.Constant):
            if site.variant == 0:
                node.value = not node.value
            elif site.variant in (1, -1):
                node.value = node.value + site.variant
            else:
                node.value = node.value * 2 + 1
            return t
        if site.kind == "flow" and isinstance(node, (ast.Continue, ast.Break)):
            for parent in ast.walk(t):
                for field, val in ast.iter_fields(parent):
                    if isinstance(val, list) and node in val:
                        val[val.index(node)] = ast.copy_location(ast.Pass(), node)
                        return t
    return None


def main():
    out = sys.argv[1]
    os.makedirs(out, exist_ok=True)
    index = []
    for rel in FILES:
        path = os.path.join(REPO, rel)
        src = open(path).read()
        tree = ast.parse(src)
        base_lines = src.splitlines(keepends=True)
        # line-preserving mutation: unparse only the mutated *statement line range* would be complex; instead mutate via
        # ast.unparse of the whole module and diff against the unparsed original (both normalised), then map to a patch of the
        # normalised file.  The scan applies "normalise + mutate" to the scratch copy, so patches are relative to normalised sources.
        norm = ast.unparse(tree) + "\n"
        mod = rel[:-3].replace("/", ".")
        d = os.path.join(out, mod)
        os.makedirs(d, exist_ok=True)
        with open(os.path.join(d, "normalised.py"), "w") as f:
            f.write(norm)
        ntree = ast.parse(norm)
        n = 0
        seen = set()
        for site in sites(ntree):
            mt = apply(ntree, site)
            if mt is None:
                continue
            try:
                msrc = ast.unparse(mt) + "\n"
                compile(msrc, rel, "exec")
            except Exception:
                continue
            if msrc == norm or msrc in seen:
                continue
            seen.add(msrc)
            n += 1
            with open(os.path.join(d, f"{n}.py"), "w") as f:
                f.write(msrc)
            changed = [l for l in difflib.unified_diff(norm.splitlines(), msrc.splitlines(), lineterm="", n=0) if l[:1] in "+-" and not l.startswith(("+++", "---"))]
            outer = None          # outermost enclosing function (methods: the method itself)
            for nd in ast.walk(ntree):
                if isinstance(nd, ast.FunctionDef) and nd.lineno <= site.lineno <= nd.end_lineno:
                    if outer is None or (nd.end_lineno - nd.lineno) > (outer.end_lineno - outer.lineno):
                        outer = nd
            func = outer.name if outer else ""
            index.append({"module": mod, "file": rel, "n": n, "kind": site.kind, "desc": site.desc, "line": site.lineno, "func": func, "change": changed[:4]})
    with open(os.path.join(out, "index.jsonl"), "w") as f:
        for r in index:
            f.write(json.dumps(r) + "\n")
    import collections
    print(len(index), "mutants", dict(collections.Counter(r["module"] for r in index)))


if __name__ == "__main__":
    main()
