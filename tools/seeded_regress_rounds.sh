#!/bin/bash
# usage: tools/seeded_regress_rounds.sh <tier> <round-tag-regex> [Cxx ...]   e.g.  quick 'r[678]' C01 C02
# like seeded_regress.sh, restricted to the seeded changes whose name matches the regex (env SEED=, VERIF_BUDGET= as usual)
cd "$(dirname "$0")/.."
TIER=${1:-quick}; RX=$2; shift; shift
ONLY=" $* "
fail=0
for d in seeded/*/; do n=$(basename $d); P=${n%%-*}
  [[ "$n" =~ $RX ]] || continue
  if [ "$ONLY" != "  " ] && [[ "$ONLY" != *" $P "* ]]; then continue; fi
  Q=$(python3 -c "
import json; e=json.load(open('seeded/EXPECTED.json')); print(e.get('caught_by_other_check',{}).get('$n',{}).get('check','$P'))")
  r=$(/venv/bin/python tools/seedtest.py $P $d/patch.diff $d/demo.py --tier $TIER --seed ${SEED:-0} $([ "$Q" != "$P" ] && echo --also $Q) | python3 -c "
import json,sys; r=json.load(sys.stdin); v=r['checks']['$Q']; print(r.get('confirmed'), v['verdict'], (v['lines'][0] if v['lines'] else '')[:150])")
  exp=$(python3 -c "
import json; e=json.load(open('seeded/EXPECTED.json')); n='$n'
print('thorough-only' if (n in e['thorough_only'] and '$TIER'=='quick') else 'out-of-reach' if n in e['out_of_reach'] else '')")
  echo "$n $r ${exp:+[expected: $exp]}"; case "$r" in *CAUGHT*) ;; *) [ -n "$exp" ] || fail=1;; esac
done
exit $fail
