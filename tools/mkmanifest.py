#!/usr/bin/env python3
"""Regenerate MANIFEST.json from the check modules present in checks/ (run from /verif)."""
import importlib, json, os, sys
HERE = os.path.dirname(os.path.dirname(os.path.abspath(__file__)))
sys.path.insert(0, HERE)
props = [json.loads(l) for l in open(os.path.join(HERE, "properties.jsonl"))]
hooks_commits = []
checks, na = [], []
for p in props:
    pid = p["id"]
    path = os.path.join(HERE, "checks", pid.lower() + ".py")
    if not os.path.exists(path):
        na.append({"property_id": pid, "reason": "check not built yet (work in progress)"})
        continue
    m = importlib.import_module("checks." + pid.lower())
    checks.append({
        "property_id": pid,
        "quick_cmd": f"/venv/bin/python run.py {pid} --tier quick",
        "thorough_cmd": f"/venv/bin/python run.py {pid} --tier thorough",
        "evidence_file": f"/verif/evidence/{pid}.json",
        "replay_cmd_template": f"/venv/bin/python run.py {pid} --replay {{path}}",
        "engine": "vmon",
        "level_claimed": {
            "category": "exploration",
            "text": getattr(m, "LEVEL_TEXT", None) or (
                "Exploration by runtime monitoring: the real pyrepseq functions are executed and every call is observed at its public "
                "boundary (call event before, return/raise event after) and decided by an independent reference model. " + m.RULE +
                " Bounded-exhaustive parts - quick: " + "; ".join(m.EXHAUSTIVE.get("quick", [])) + " - thorough: " +
                "; ".join(m.EXHAUSTIVE.get("thorough", [])) + ". This is the right level because the property is a for-all-inputs "
                "functional claim about pure-Python code: an oracle over many diverse executions (small scopes enumerated completely, "
                "larger ones sampled, hostile classes forced and counted) is what a monitor can decide; the verdict is 'held on the "
                "executions observed', three-valued (violated / held / inconclusive when a required event class was not observed)."),
            "design_ref": f"DESIGN.md section 4, {pid}",
        },
        "level_note": getattr(m, "LEVEL_NOTE", None) or "; ".join(getattr(m, "ASSUMPTIONS", [])) or "oracles in vmon/oracles.py are the trusted base",
        "technique": getattr(m, "TECHNIQUE", None) or "runtime monitoring: boundary recorder + reference-model oracle over generated/exhaustive-small/hostile workloads",
    })
manifest = {
    "version": 1,
    "setup_cmd": "/venv/bin/python -m pip install -q --no-index --find-links /opt/veriftools/wheels --target /verif/.deps icontract || true",
    "hooks": {
        "guard": "ANDIM_PYREPSEQ_VERIF",
        "enable": "no source hooks exist: monitors attach from outside (module attributes wrapped, sys.monitoring, icontract class invariants, forked pool workers inherit wrappers); checks set ANDIM_PYREPSEQ_VERIF=1 for uniformity but the repository never reads it",
        "baseline_off_cmd": "cd /repo && env -u ANDIM_PYREPSEQ_VERIF /venv/bin/python -m pytest -ra -q -p no:cacheprovider --timeout=900 --continue-on-collection-errors",
        "source_commits": hooks_commits,
        "add_only": True,
    },
    "engines": [{"name": "vmon", "path": "/verif/vmon", "serves_properties": [c["property_id"] for c in checks],
                 "kind_free_text": "hand-written runtime-monitoring framework: boundary recorder, oracle monitors, icontract invariants, sys.monitoring coverage/failpoints, worker-side event logs, sharded drivers"}],
    "checks": checks,
    "not_applicable": na,
    "notes": "All checks: /venv/bin/python run.py <Cxx> --tier quick|thorough ; VERIF_SEED seeds every generator; exit 0 held / 1 VIOLATION / 2 inconclusive. Known findings: known_findings.json (committed, never written at run time).",
}
json.dump(manifest, open(os.path.join(HERE, "MANIFEST.json"), "w"), indent=1)
print("checks:", [c["property_id"] for c in checks]); print("not_applicable:", [n["property_id"] for n in na])
