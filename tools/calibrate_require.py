#!/usr/bin/env python3
"""Calibrate REQUIRE minima so that the *mandatory* cases alone (time budget 0, any seed) satisfy them with margin.
Rewrites the REQUIRE dict literal values in checks/cXX.py to min(current, max(1, observed_min // 2))."""
import importlib, json, os, re, subprocess, sys
HERE = os.path.dirname(os.path.dirname(os.path.abspath(__file__))); sys.path.insert(0, HERE)
tier = sys.argv[1] if len(sys.argv) > 1 else "quick"
for i in range(1, 21):
    pid = f"C{i:02d}"
    mins = {}
    for seed in (0, 1, 2):
        env = dict(os.environ, VERIF_SEED=str(seed))
        subprocess.run(["/venv/bin/python", "run.py", pid, "--tier", tier, "--budget", "0"], cwd=HERE, env=env, capture_output=True)
        ev = json.load(open(os.path.join(HERE, "evidence", f"{pid}.json")))
        c = ev["coverage"]["monitor_counters"]
        m = importlib.import_module(f"checks.{pid.lower()}")
        for k in m.REQUIRE:
            mins[k] = min(mins.get(k, 10**12), c.get(k, 0))
    path = os.path.join(HERE, "checks", pid.lower() + ".py")
    src = open(path).read()
    changed = []
    for k, cur in m.REQUIRE.items():
        new = min(cur, max(1, mins[k] // 2))
        if mins[k] == 0:
            print(f"!! {pid} {k}: never observed by mandatory cases"); continue
        if new != cur:
            src, n = re.subn(r'("%s": )%d\b' % (re.escape(k), cur), r'\g<1>%d' % new, src, count=1)
            changed.append(f"{k}:{cur}->{new}(obs {mins[k]})")
    open(path, "w").write(src)
    print(pid, "; ".join(changed) or "ok")
