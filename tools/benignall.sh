#!/bin/bash
# usage: [SRC=/tmp/wt5] tools/benignall.sh C01 C02 ...  -- test refactorings patch1..3 of each agent output dir
SRC=${SRC:-/tmp/wt5}
for P in "$@"; do for i in 1 2 3; do
 O=$SRC/$P.out
 [ -f $O/patch$i.diff ] || continue
 /venv/bin/python /verif/tools/benigntest.py $P $O/patch$i.diff $O/equiv$i.py --note $O/note$i.txt --keep $P-b$i | python3 -c "
import json,sys; r=json.load(sys.stdin)
print('$P-b$i', 'valid=%s'%r.get('valid_refactoring'), '| equiv clean:', r.get('equiv_on_unchanged','')[:40], '| pinned:', r.get('pinned_ok'), '| equiv patched:', r.get('equiv_with_patch','')[:60], '|', ' '.join(f'{c}:{v[\"verdict\"]}' for c,v in r.get('checks',{}).items()))
for c,v in r.get('checks',{}).items():
    if v['verdict']!='held': print('     ', c, v['lines'][:2])"
done; done
