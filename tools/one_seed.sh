#!/bin/bash
# usage: tools/one_seed.sh <seeded-name> [tier] [Cxx]  -- run one check against one stored seeded change (scratch copy, removed afterwards)
cd "$(dirname "$0")/.."
n=$1; TIER=${2:-quick}; P=${3:-${n%%-*}}
T=$(mktemp -d /tmp/oneseed.XXXXXX)
rsync -a --exclude .git /repo/ $T/ && patch -d $T -p1 -s -i $PWD/seeded/$n/patch.diff || { echo "patch failed"; rm -rf $T; exit 3; }
VERIF_REPO=$T VERIF_SCRATCH=1 VERIF_SEED=${SEED:-0} /venv/bin/python run.py $P --tier $TIER 2>&1 | grep -E "witness|VIOLATION|HELD|INCONCLUSIVE" | head -${LINES_MAX:-4} | cut -c1-260
rm -rf $T
