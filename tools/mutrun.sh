#!/bin/bash
# usage: tools/mutrun.sh <patch.diff> <PID> [tier]   -- applies the patch to a scratch copy of /repo (outside /repo and /verif),
# runs the repo's pinned tests there (must still pass) and then the check with VERIF_REPO pointing at the copy.
set -u
PATCH=$(readlink -f "$1"); PID=$2; TIER=${3:-quick}
S=$(mktemp -d /tmp/mut.XXXXXX)
rsync -a --exclude .git /repo/ "$S/"
( cd "$S" && patch -p1 -s < "$PATCH" ) || { echo "PATCH FAILED"; rm -rf "$S"; exit 3; }
if [ "${SKIP_BASELINE:-0}" != 1 ]; then /venv/bin/python /verif/tools/baseline.py "$S" | head -5; fi
cd /verif && VERIF_REPO="$S" /venv/bin/python run.py "$PID" --tier "$TIER" 2>&1 | grep -E "^(VIOLATION|HELD|INCONCLUSIVE|KNOWN|\[C)" | cut -c1-300 | head -12
rm -rf "$S"
