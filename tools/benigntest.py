#!/usr/bin/env python3
"""False-alarm test for one behaviour-preserving refactoring.

usage: tools/benigntest.py <PID> <patch.diff> <equiv.py> [--note note.txt] [--keep NAME]

1. equiv passes on a scratch copy of the unchanged tree;  2. the patch applies, the pinned tests pass, equiv still passes;
3. the property's check and every check mapped to a touched module run against the patched copy: all must be HELD.
With --keep (and only if 1-2 hold) the refactoring is stored under benign/<NAME>/ {patch.diff, equiv.py, meta.json}."""
import argparse
import json
import os
import re
import shutil
import subprocess
import sys
import tempfile

VERIF = os.path.dirname(os.path.dirname(os.path.abspath(__file__)))
sys.path.insert(0, os.path.join(VERIF, "tools"))
from mutscan import MAP  # noqa: E402

PY = "/venv/bin/python"


def sh(cmd, cwd=None, env=None, timeout=3600):
    r = subprocess.run(cmd, cwd=cwd, env=env, capture_output=True, text=True, timeout=timeout)
    return r.returncode, r.stdout + r.stderr


def run_equiv(tree, equiv):
    shutil.copy(equiv, os.path.join(tree, "_equiv.py"))
    rc, out = sh([PY, "-W", "ignore", "_equiv.py"], cwd=tree, env=dict(os.environ, PYTHONPATH=tree, MPLBACKEND="Agg"), timeout=1800)
    os.remove(os.path.join(tree, "_equiv.py"))
    return rc, out[-400:]


def main():
    ap = argparse.ArgumentParser()
    ap.add_argument("pid")
    ap.add_argument("patch")
    ap.add_argument("equiv")
    ap.add_argument("--note")
    ap.add_argument("--keep")
    a = ap.parse_args()
    res = {"property": a.pid, "patch": os.path.basename(a.patch)}
    clean = tempfile.mkdtemp(prefix="benign-clean.", dir="/tmp")
    mut = tempfile.mkdtemp(prefix="benign-ref.", dir="/tmp")
    try:
        for d in (clean, mut):
            sh(["rsync", "-a", "--exclude", ".git", "/repo/", d + "/"])
        rc, out = run_equiv(clean, a.equiv)
        res["equiv_on_unchanged"] = "PASS" if rc == 0 else f"FAIL: {out[-200:]}"
        rc, out = sh(["patch", "-p1", "-s", "-i", os.path.abspath(a.patch)], cwd=mut)
        if rc != 0:
            res["error"] = "patch does not apply"
            print(json.dumps(res, indent=1))
            return 3
        rc, out = sh([PY, os.path.join(VERIF, "tools", "baseline.py"), mut])
        res["pinned_ok"] = rc == 0
        rc, out = run_equiv(mut, a.equiv)
        res["equiv_with_patch"] = "PASS" if rc == 0 else f"FAIL: {out[-300:]}"
        res["valid_refactoring"] = res["equiv_on_unchanged"] == "PASS" and res["pinned_ok"] and rc == 0
        touched = sorted({m.group(1)[:-3].replace("/", ".") for m in re.finditer(r"^\+\+\+ b/(\S+\.py)", open(a.patch).read(), re.M)})
        checks = [a.pid]
        for t in touched:
            for c in MAP.get(t, []):
                if c not in checks:
                    checks.append(c)
        only = os.environ.get("BENIGN_ONLY", "").split()
        if only:
            checks = [c for c in checks if c in only]        # validation after a change to some checks: run just those
        res["touched"] = touched
        res["checks"] = {}
        for c in checks:
            rc, out = sh([PY, os.path.join(VERIF, "run.py"), c, "--tier", "quick"], cwd=VERIF, env=dict(os.environ, VERIF_REPO=mut), timeout=7200)
            lines = [l[:300] for l in out.splitlines() if l.startswith(("VIOLATION", "INCONCLUSIVE", "  witness"))]
            res["checks"][c] = {"exit": rc, "verdict": "held" if rc == 0 else ("ALARM" if rc == 1 else "inconclusive"), "lines": lines[:4]}
        if a.keep and res["valid_refactoring"]:
            d = os.path.join(VERIF, "benign", a.keep)
            os.makedirs(d, exist_ok=True)
            shutil.copy(a.patch, os.path.join(d, "patch.diff"))
            shutil.copy(a.equiv, os.path.join(d, "equiv.py"))
            note = open(a.note).read().strip() if a.note and os.path.exists(a.note) else ""
            with open(os.path.join(d, "meta.json"), "w") as f:
                json.dump({"kind": "behaviour-preserving refactoring (false-alarm test)", "written_for_property": a.pid, "note": note,
                           "touched": touched, "confirmed": {k: res[k] for k in ("equiv_on_unchanged", "pinned_ok", "equiv_with_patch")},
                           "checks_run": {c: v["verdict"] for c, v in res["checks"].items()}}, f, indent=1)
        print(json.dumps(res, indent=1))
        return 0
    finally:
        shutil.rmtree(clean, ignore_errors=True)
        shutil.rmtree(mut, ignore_errors=True)


if __name__ == "__main__":
    sys.exit(main())
