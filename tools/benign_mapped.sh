#!/bin/bash
# Re-run the stored behaviour-preserving refactorings benign/Cxx-b<i>/ against the checks mapped to what they touch
# (the property's own check, the checks of every touched module, C20): every verdict must be "held".
# usage: tools/benign_mapped.sh [Cxx ...]      (optional list restricts the run to refactorings written for those properties)
cd "$(dirname "$0")/.."
ONLY=" $* "
fail=0
for d in benign/C??-b?/; do n=$(basename $d); P=${n%%-*}
  if [ "$ONLY" != "  " ] && [[ "$ONLY" != *" $P "* ]]; then continue; fi
  r=$(/venv/bin/python tools/benigntest.py $P $d/patch.diff $d/equiv.py | python3 -c "
import json,sys; r=json.load(sys.stdin)
print('valid=%s'%r.get('valid_refactoring'), ' '.join(f'{c}:{v[\"verdict\"]}' for c,v in r.get('checks',{}).items()))
for c,v in r.get('checks',{}).items():
    if v['verdict']!='held': print('     ', c, v['lines'][:2])")
  echo "$n $r"; case "$r" in *ALARM*|*inconclusive*|*valid=False*) fail=1;; esac
done
exit $fail
