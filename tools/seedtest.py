#!/usr/bin/env python3
"""Confirm a seeded change and run the checks against it.

usage: tools/seedtest.py <PID> <patch.diff> <demo.py> [--note note.txt] [--keep NAME] [--tier quick|thorough] [--also Cxx,Cyy]

1. demo passes on the unchanged tree (a scratch copy of /repo);  2. patch applies, pinned tests still pass, demo fails;
3. the property's check (and any --also checks) is run with VERIF_REPO pointing at the patched scratch copy.
With --keep the confirmed change is stored as /verif/seeded/<NAME>/ {patch.diff, demo.py, meta.json}.
Scratch copies live under /tmp and are removed before returning.  Nothing is ever applied to /repo.
"""
import argparse
import json
import os
import shutil
import subprocess
import sys
import tempfile

VERIF = os.path.dirname(os.path.dirname(os.path.abspath(__file__)))
PY = "/venv/bin/python"


def sh(cmd, cwd=None, env=None, timeout=3600):
    r = subprocess.run(cmd, cwd=cwd, env=env, capture_output=True, text=True, timeout=timeout)
    return r.returncode, (r.stdout + r.stderr)


def run_demo(tree, demo):
    env = dict(os.environ, PYTHONPATH=tree)
    shutil.copy(demo, os.path.join(tree, "_demo.py"))
    rc, out = sh([PY, "-W", "ignore", "_demo.py"], cwd=tree, env=env, timeout=600)
    os.remove(os.path.join(tree, "_demo.py"))
    return rc, out[-600:]


def main():
    ap = argparse.ArgumentParser()
    ap.add_argument("pid")
    ap.add_argument("patch")
    ap.add_argument("demo")
    ap.add_argument("--note")
    ap.add_argument("--keep")
    ap.add_argument("--tier", default="quick")
    ap.add_argument("--also", default="")
    ap.add_argument("--seed", default="0")
    a = ap.parse_args()
    res = {"property": a.pid, "patch": os.path.basename(a.patch)}
    clean = tempfile.mkdtemp(prefix="seed-clean.", dir="/tmp")
    mut = tempfile.mkdtemp(prefix="seed-mut.", dir="/tmp")
    try:
        for d in (clean, mut):
            sh(["rsync", "-a", "--exclude", ".git", "/repo/", d + "/"])
        rc, out = run_demo(clean, a.demo)
        res["demo_on_unchanged"] = "PASS" if rc == 0 else f"FAIL rc={rc}: {out[-200:]}"
        rc, out = sh(["patch", "-p1", "-s", "-i", os.path.abspath(a.patch)], cwd=mut)
        if rc != 0:
            res["patch"] = "DOES NOT APPLY: " + out[-300:]
            print(json.dumps(res, indent=1))
            return 3
        rc, out = sh([PY, os.path.join(VERIF, "tools", "baseline.py"), mut])
        res["pinned_tests_with_patch"] = out.strip().splitlines()[0] if out.strip() else f"rc={rc}"
        res["pinned_ok"] = rc == 0
        rc, out = run_demo(mut, a.demo)
        res["demo_with_patch"] = "FAILS (as intended)" if rc != 0 else "PASSES (change not demonstrated)"
        res["demo_fail_output"] = out[-300:] if rc != 0 else ""
        confirmed = res["demo_on_unchanged"] == "PASS" and res["pinned_ok"] and rc != 0
        res["confirmed"] = confirmed
        checks = [a.pid] + [c for c in a.also.split(",") if c]
        res["checks"] = {}
        for c in checks:
            env = dict(os.environ, VERIF_REPO=mut, VERIF_SEED=a.seed)
            rc, out = sh([PY, os.path.join(VERIF, "run.py"), c, "--tier", a.tier], cwd=VERIF, env=env, timeout=7200)
            lines = [l for l in out.splitlines() if l.startswith(("VIOLATION", "HELD", "INCONCLUSIVE", "KNOWN-FINDING", "  witness"))]
            res["checks"][c] = {"exit": rc, "verdict": "CAUGHT" if rc == 1 else ("missed" if rc == 0 else "inconclusive"),
                                "lines": [l[:260] for l in lines[:6]]}
        if a.keep and confirmed:
            d = os.path.join(VERIF, "seeded", a.keep)
            os.makedirs(d, exist_ok=True)
            shutil.copy(a.patch, os.path.join(d, "patch.diff"))
            shutil.copy(a.demo, os.path.join(d, "demo.py"))
            note = open(a.note).read() if a.note and os.path.exists(a.note) else ""
            meta = {"breaks_property": a.pid, "needs_to_manifest": note.strip(),
                    "confirmed": {"demo_on_unchanged_tree": res["demo_on_unchanged"], "pinned_tests_with_patch": res["pinned_tests_with_patch"],
                                  "demo_with_patch": res["demo_with_patch"]},
                    "what_was_run": f"tools/seedtest.py {a.pid} patch.diff demo.py --tier {a.tier}" + (f" --also {a.also}" if a.also else ""),
                    "check_results": {c: {"tier": a.tier, "verdict": v["verdict"], "first_lines": v["lines"][:3]} for c, v in res["checks"].items()}}
            with open(os.path.join(d, "meta.json"), "w") as f:
                json.dump(meta, f, indent=1)
        print(json.dumps(res, indent=1))
        return 0
    finally:
        shutil.rmtree(clean, ignore_errors=True)
        shutil.rmtree(mut, ignore_errors=True)


if __name__ == "__main__":
    sys.exit(main())
