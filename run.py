#!/venv/bin/python
"""Single entry point:  run.py <Cxx> [--tier quick|thorough] [--replay FILE] [--shards N]

exit 0  property held on everything observed (KNOWN-FINDING lines possible)
exit 1  VIOLATION property=<id> replay=<path>
exit 2  INCONCLUSIVE (watchdog, harness error, a required class of events never observed)
"""
import argparse
import importlib
import json
import os
import subprocess
import sys
import time

HERE = os.path.dirname(os.path.abspath(__file__))
sys.path.insert(0, HERE)
os.environ.setdefault("PYTHONHASHSEED", "0")
os.environ.setdefault("MPLBACKEND", "Agg")
os.environ.setdefault("OMP_NUM_THREADS", "1")
os.environ.setdefault("OPENBLAS_NUM_THREADS", "1")

PY = "/venv/bin/python" if os.path.exists("/venv/bin/python") else sys.executable
QUICK_BUDGET = float(os.environ.get("VERIF_QUICK_BUDGET", "35"))       # soft seconds per shard
THOROUGH_BUDGET = float(os.environ.get("VERIF_THOROUGH_BUDGET", "420"))
QUICK_WATCHDOG = 900
THOROUGH_WATCHDOG = 7200


def load_check(pid):
    return importlib.import_module(f"checks.{pid.lower()}")


def ensure_deps():
    """icontract lives beside the repository's interpreter in /verif/.deps (git-ignored)."""
    deps = os.path.join(HERE, ".deps")
    if os.path.isdir(os.path.join(deps, "icontract")):
        return
    subprocess.run([PY, "-m", "pip", "install", "-q", "--no-index", "--find-links",
                    "/opt/veriftools/wheels", "--target", deps, "icontract"],
                   stdout=subprocess.DEVNULL, stderr=subprocess.DEVNULL, check=False)


# ---------------------------------------------------------------------------------------------
# shard worker
# ---------------------------------------------------------------------------------------------

def run_shard(pid, tier, seed, k, n, out, budget):
    import faulthandler
    faulthandler.enable()
    from vmon import core
    core.setup_paths()
    chk = load_check(pid)
    ctx = core.Ctx(pid, tier, seed)
    cov = core.FunctionCoverage(core.load_anchors(pid))
    core.COVERAGE = cov
    cov.start()
    sidecar = out + ".current"
    t0 = time.time()
    skipped = 0
    if hasattr(chk, "self_test"):
        chk.self_test()
    for idx, item in enumerate(chk.generate(tier, seed)):
        kind, params, must = item
        if idx % n != k:
            continue
        if not must and time.time() - t0 > budget:
            skipped += 1
            continue
        with open(sidecar, "w") as f:          # open-call witness if this process dies
            json.dump({"kind": kind, "params": params}, f, default=repr)
        ctx.run_case(chk.KINDS, kind, params)
    cov.stop()
    res = ctx.dump()
    res["anchors_seen"] = sorted(cov.seen)
    res["skipped_for_budget"] = skipped
    with open(out, "w") as f:
        json.dump(res, f, default=repr)
    try:
        os.remove(sidecar)
    except OSError:
        pass


# ---------------------------------------------------------------------------------------------
# replay
# ---------------------------------------------------------------------------------------------

def replay(pid, path):
    from vmon import core
    core.setup_paths()
    chk = load_check(pid)
    with open(path) as f:
        w = json.load(f)
    ctx = core.Ctx(pid, w.get("tier", "quick"), w.get("seed", 0))
    if hasattr(chk, "prepare"):
        chk.prepare(w.get("tier", "quick"), w.get("seed", 0))
    ctx.run_case(chk.KINDS, w["kind"], w["params"])
    if ctx.counters.get("harness_errors"):
        print("INCONCLUSIVE: harness error during replay", ctx.samples.get("harness_error"))
        return 2
    if ctx.violations:
        for v in ctx.violations[:5]:
            print(f"REPRODUCED key={v['key']}: {v['message']}")
            print("  observed:", json.dumps(v["observed"])[:600])
            print("  expected:", json.dumps(v["expected"])[:600])
        print(f"VIOLATION property={pid} replay={path}")
        return 1
    print("not reproduced: the recorded case passes on the current tree")
    return 0


# ---------------------------------------------------------------------------------------------
# parent: spawn shards, merge, classify, write evidence
# ---------------------------------------------------------------------------------------------

def main():
    ap = argparse.ArgumentParser()
    ap.add_argument("pid")
    ap.add_argument("--tier", default=os.environ.get("VERIF_TIER", "quick"), choices=["quick", "thorough"])
    ap.add_argument("--replay")
    ap.add_argument("--shards", type=int, default=None)
    ap.add_argument("--shard")
    ap.add_argument("--out")
    ap.add_argument("--budget", type=float, default=None)
    a = ap.parse_args()
    pid = a.pid.upper()
    seed = int(os.environ.get("VERIF_SEED", "0") or 0)

    if a.replay:
        sys.exit(replay(pid, a.replay))

    if a.budget is None and os.environ.get("VERIF_BUDGET"):
        a.budget = float(os.environ["VERIF_BUDGET"])          # validation runs: VERIF_BUDGET=0 executes the mandatory cases only
    budget = a.budget if a.budget is not None else (QUICK_BUDGET if a.tier == "quick" else THOROUGH_BUDGET)
    if a.shard:
        k, n = map(int, a.shard.split("/"))
        run_shard(pid, a.tier, seed, k, n, a.out, budget)
        return

    ensure_deps()
    from vmon import core
    chk = load_check(pid)
    nshards = a.shards or getattr(chk, "SHARDS", {}).get(a.tier) or (6 if a.tier == "quick" else 16)
    work = os.path.join(HERE, ".work", pid, f"run-{os.getpid()}")       # private to this invocation (concurrent runs do not collide)
    os.makedirs(work, exist_ok=True)
    t0 = time.time()
    if hasattr(chk, "prepare"):
        chk.prepare(a.tier, seed)
    procs = []
    for k in range(nshards):
        out = os.path.join(work, f"{a.tier}.shard{k}.json")
        for p in (out, out + ".current"):
            if os.path.exists(p):
                os.remove(p)
        cmd = [PY, os.path.abspath(__file__), pid, "--tier", a.tier, "--shard", f"{k}/{nshards}",
               "--out", out, "--budget", str(budget)]
        log = open(out + ".log", "w")
        procs.append((k, out, subprocess.Popen(cmd, cwd=HERE, stdout=log, stderr=subprocess.STDOUT), log))
    watchdog = QUICK_WATCHDOG if a.tier == "quick" else THOROUGH_WATCHDOG
    inconclusive = []
    results = []
    for k, out, p, log in procs:
        left = max(1.0, watchdog - (time.time() - t0))
        try:
            rc = p.wait(timeout=left)
        except subprocess.TimeoutExpired:
            p.kill()
            p.wait()
            rc = None
        log.close()
        if rc is None or rc != 0 or not os.path.exists(out):
            witness = None
            if os.path.exists(out + ".current"):
                with open(out + ".current") as f:
                    witness = f.read()[:2000]
            tail = ""
            try:
                with open(out + ".log") as f:
                    tail = f.read()[-1500:]
            except OSError:
                pass
            inconclusive.append({"shard": k, "reason": "watchdog" if rc is None else f"exit {rc}",
                                 "open_case": witness, "log_tail": tail})
            continue
        with open(out) as f:
            results.append(json.load(f))

    # ---- merge
    import collections
    counters, calls = collections.Counter(), collections.Counter()
    nontrivial, anchors_seen = set(), set()
    violations, samples = [], {}
    evaluations = returned = raised = skipped = 0
    seconds = collections.Counter()
    distincts = collections.defaultdict(set)
    for r in results:
        seconds.update(r.get("seconds", {}))
        for kk, vv in r.get("distincts", {}).items():
            distincts[kk].update(vv)
        counters.update(r["counters"])
        calls.update(r["calls"])
        nontrivial.update(r["nontrivial"])
        anchors_seen.update(r["anchors_seen"])
        violations.extend(r["violations"])
        for kk, vv in r["samples"].items():
            samples.setdefault(kk, vv)
        evaluations += r["evaluations"]
        returned += r["returned"]
        raised += r["raised"]
        skipped += r["skipped_for_budget"]

    # ---- classify against the committed known-findings file (never written at run time)
    known = [k for k in core.load_known() if k.get("property") == pid and k.get("status") == "open"]
    known_keys = {k["key"]: k for k in known}
    new, seen_known = {}, {}
    for v in violations:
        if v["key"] in known_keys:
            seen_known.setdefault(v["key"], v)
        else:
            new.setdefault(v["key"], v)

    scratch = core.REPO != "/repo"      # self-validation against a scratch copy never touches committed evidence
    rdir = os.path.join(HERE, ".work", "scratch-replays", pid) if scratch else os.path.join(HERE, "replays", pid)
    lines = []
    if new:
        os.makedirs(rdir, exist_ok=True)
        for key, v in list(new.items())[:12]:
            safe = "".join(c if c.isalnum() or c in "-_." else "_" for c in key)[:80]
            path = os.path.join(rdir, f"{a.tier}-{safe}.json")
            with open(path, "w") as f:
                json.dump(v, f, indent=1, default=repr)
            print(f"  witness [{key}] {v['message']}")
            print(f"    observed: {json.dumps(v['observed'], default=repr)[:300]}")
            print(f"    expected: {json.dumps(v['expected'], default=repr)[:300]}")
            lines.append(f"VIOLATION property={pid} replay={os.path.relpath(path, HERE)}")
    for key, v in seen_known.items():
        print(f"KNOWN-FINDING: property={pid} {key}: {known_keys[key].get('what', '')}")

    # ---- required observation classes
    missing = []
    waived = set()
    for flag, names in getattr(chk, "WAIVE_IF", {}).items():
        if counters.get(flag, 0):
            waived.update(names)        # an observation channel is unavailable on this tree: its minima are waived (and said so in the evidence)
    for name, minimum in getattr(chk, "REQUIRE", {}).items():
        if name in waived:
            continue
        if counters.get(name, 0) < minimum:
            missing.append(f"{name}={counters.get(name, 0)}<{minimum}")
    anchors = core.load_anchors(pid)
    anchors_hit = [x for x in anchors if x in anchors_seen]
    anchors_missed = [x for x in anchors if x not in anchors_seen]
    # line-level reach inside the anchored functions (statement-start lines seen by sys.monitoring LINE events)
    exe, hit = {}, {}
    for x in anchors_seen:
        if x.startswith("X|"):
            _, owner, ls = x.split("|", 2)
            exe.setdefault(owner, set()).update(int(v) for v in ls.split(",") if v)
        elif x.startswith("L|"):
            _, owner, ln = x.split("|", 2)
            hit.setdefault(owner, set()).add(int(ln))
    line_reach = {}
    for owner in sorted(exe):
        h = hit.get(owner, set()) & exe[owner]
        miss = sorted(exe[owner] - h)
        line_reach[owner] = {"executable_lines": len(exe[owner]), "executed": len(h), "not_executed": miss[:60]}
    if counters.get("harness_errors"):
        inconclusive.append({"reason": f"{counters['harness_errors']} harness error(s)",
                             "sample": samples.get("harness_error")})
    if missing:
        inconclusive.append({"reason": "required event classes not observed: " + ", ".join(missing)})
    if anchors and not anchors_hit:
        inconclusive.append({"reason": "none of the anchored functions was executed"})
    if evaluations == 0:
        inconclusive.append({"reason": "no case evaluated"})

    import shutil
    if not inconclusive:
        shutil.rmtree(work, ignore_errors=True)
    wall = time.time() - t0
    sample_list = [{"label": k, "case": v} for k, v in list(samples.items())[:12] if k != "harness_error"]
    ev = {
        "property_id": pid, "tier": a.tier, "seed": seed, "level": "exploration",
        "coverage": {
            "evaluations": evaluations,
            "distinct_nontrivial": len(nontrivial),
            "rule": getattr(chk, "RULE", ""),
            "samples": sample_list or [{"label": "none", "case": None}],
            "exhaustive": False,
            "exhaustive_parts": getattr(chk, "EXHAUSTIVE", {}).get(a.tier, []),
            "boundary_events": {"calls": sum(calls.values()), "returned": returned, "raised": raised,
                                "per_function": dict(sorted(calls.items()))},
            "monitor_counters": dict(sorted(counters.items())),
            "anchor_functions_executed": anchors_hit,
            "anchor_functions_not_executed": anchors_missed,
            "anchor_line_reach": line_reach,
            "optional_cases_skipped_for_time_budget": skipped,
            "cpu_seconds_per_case_kind": {k: round(v, 2) for k, v in seconds.items()},
            "distinct_observations": {k: len(v) for k, v in sorted(distincts.items())},
            "shards": nshards,
            "inconclusive": inconclusive,
            "known_findings_observed": sorted(seen_known),
            "required_classes_waived": sorted(waived),
            "repo": core.REPO,
        },
        "assumptions": getattr(chk, "ASSUMPTIONS", []),
        "wall_s": round(wall, 2),
        "violations": len(new),
    }
    evdir = os.path.join(HERE, ".work", "scratch-evidence") if scratch else os.path.join(HERE, "evidence")
    os.makedirs(evdir, exist_ok=True)
    with open(os.path.join(evdir, f"{pid}.json"), "w") as f:
        json.dump(ev, f, indent=1, default=repr)

    print(f"[{pid} {a.tier} seed={seed}] cases={evaluations} distinct_nontrivial={len(nontrivial)} "
          f"calls={sum(calls.values())} (returned {returned}, raised {raised}) "
          f"anchors {len(anchors_hit)}/{len(anchors)} skipped_for_budget={skipped} wall={wall:.1f}s")
    interesting = {k: v for k, v in counters.items() if not k.startswith("cases:")}
    print("  observed:", json.dumps(dict(sorted(interesting.items())))[:1500])
    if lines:
        for ln in lines:
            print(ln)
        sys.exit(1)
    if inconclusive:
        print("INCONCLUSIVE:", json.dumps(inconclusive, default=repr)[:3000])
        sys.exit(2)
    print(f"HELD property={pid} on everything observed")
    sys.exit(0)


if __name__ == "__main__":
    main()
